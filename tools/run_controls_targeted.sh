#!/bin/bash
# Like run_controls.sh, but each property-preserving control patch is run only against the checks whose code paths it touches
# (a check that is silent on the unchanged tree cannot be affected by a patch to code it never executes).
# Used when the full 9 x 18 run (about two hours) does not fit; ONLY="C05 C10" restricts further to the named checks.
cd /repo || exit 2
git diff --quiet || { echo "/repo dirty"; exit 2; }
declare -A REL=(
 [ctl1]="C01 C02 C06 C12 C14 C15"
 [ctl2]="C05 C08 C10 C11 C13 C14"
 [ctl3]="C05 C08 C10 C11 C13 C14"
 [ctl4]="C08 C13 C14 C18"
 [ctl5]="C03 C04 C06 C07 C15 C16"
 [ctl6]="C01 C03 C04 C09 C17"
 [ctl7]="C08 C13 C14 C16"
 [ctl8]="C01 C02 C05 C09 C10 C11 C12"
 [ctl9]="C02 C16 C18"
)
for f in /verif/validation/controls/*.diff; do
  k=$(basename $f | cut -d_ -f1)
  git apply "$f" || { echo "$(basename $f): does not apply"; continue; }
  line="$(basename $f):"
  for p in ${REL[$k]}; do
    if [ -n "$ONLY" ] && ! echo " $ONLY " | grep -q " $p "; then continue; fi
    out=$(cd /verif && ./check $p --tier quick 2>&1); rc=$?
    if [ $rc -ne 0 ]; then line="$line $p=ALARM(rc=$rc)"; echo "$out" | grep -A1 -E "^VIOLATION|HARNESS" | head -4 | cut -c1-300; else line="$line $p=ok"; fi
  done
  echo "$line"
  git checkout -- .
done
