#!/usr/bin/env python3
"""Runs the registered checks against every seeded change under /verif/seeded and records the outcome in its meta.json.
usage: tools/seeded_matrix.py [--tier quick] [--only C07a,C12b] [--props own|all|C01,C05]"""
import argparse, json, os, subprocess, sys, time
ap = argparse.ArgumentParser()
ap.add_argument("--tier", default="quick")
ap.add_argument("--only")
ap.add_argument("--props", default="own")
a = ap.parse_args()
root = "/verif/seeded"
ids = sorted(os.listdir(root))
if a.only:
    ids = [i for i in ids if i in a.only.split(",")]
def sh(cmd, **kw):
    return subprocess.run(cmd, shell=True, stdout=subprocess.PIPE, stderr=subprocess.STDOUT, text=True, **kw)
assert sh("git -C /repo diff --quiet").returncode == 0, "/repo is dirty"
rows = []
for sid in ids:
    d = os.path.join(root, sid)
    mp = os.path.join(d, "meta.json")
    meta = json.load(open(mp)) if os.path.exists(mp) else {}
    prop = meta.get("property", sid[:3])
    props = [prop] if a.props == "own" else (["C%02d" % i for i in range(1, 19)] if a.props == "all" else a.props.split(","))
    r = sh("git -C /repo apply %s/patch.diff" % d)
    if r.returncode != 0:
        print(sid, "PATCH DOES NOT APPLY", r.stdout[:200]); continue
    try:
        for p in props:
            t0 = time.time()
            o = sh("cd /verif && ./check %s --tier %s" % (p, a.tier), timeout=7200)
            nv = sum(1 for l in o.stdout.splitlines() if l.startswith("VIOLATION"))
            first = next((l.strip() for l in o.stdout.splitlines() if l.strip().startswith("what:")), "")
            meta.setdefault("detection", {})["%s/%s" % (p, a.tier)] = {"exit": o.returncode, "violation_lines": nv, "first_witness": first[:400], "wall_s": round(time.time() - t0, 1)}
            rows.append((sid, p, o.returncode, nv, first[:110]))
            print("%-5s %-4s exit=%d violations=%d %s" % rows[-1], flush=True)
    finally:
        sh("git -C /repo checkout -- .")
    json.dump(meta, open(mp, "w"), indent=1, ensure_ascii=False)
missed = [r for r in rows if r[2] != 1 and r[1] == r[0][:3]]
print("\nmissed by own check:", [r[0] for r in missed])
