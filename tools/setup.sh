#!/bin/bash
# builds the executor (both profiles) against /repo's current working tree, offline
set -e
cd /verif
export CARGO_NET_OFFLINE=true
python3 - <<'PY'
import sys
sys.path.insert(0, "/verif")
from vlib import common
common.build("verifdbg")
common.build("release")
print("vexec built")
PY
