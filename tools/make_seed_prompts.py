#!/usr/bin/env python3
"""Writes one prompt file per property for a round of independently seeded changes.
usage: tools/make_seed_prompts.py <scratch dir, e.g. /tmp/wt5>   (the worktrees <dir>/C01.. must exist)
The prompt contains only the property text and one-line summaries of ideas already used (so that new rounds look elsewhere);
nothing else from /verif is given to the sub-agents."""
import json, os, sys
root = sys.argv[1]
extra = sys.argv[2] if len(sys.argv) > 2 else ''
props = {}
for l in open('/verif/properties.jsonl'):
    p = json.loads(l); props[p['id']] = p
used = {}
for sid in sorted(os.listdir('/verif/seeded')):
    mp = '/verif/seeded/%s/meta.json' % sid
    if os.path.exists(mp):
        m = json.load(open(mp))
        used.setdefault(m['property'], []).append(m['needs_to_manifest'])
base = '''You are helping test a verification framework by playing the role of a careless-but-plausible maintainer. You work ONLY inside the scratch git worktree at @ROOT@/@ID@ (a checkout of the Rust crate `expression_engine` — a small tokenizer, Pratt parser and tree-walking evaluator for a business-rule expression language with Decimal numbers and registrable operators). Do not read or touch /verif or /repo, and do not commit anything anywhere. The sandbox has no network: always build with `cargo ... --offline`.

Here is a semantic property that the crate is supposed to satisfy:

---
@PROP@
---

Your task: produce TWO different source changes ("mutant a" and "mutant b", in different functions or relying on different mechanisms) to the crate's `src/` such that each one
  1. still compiles, and the crate's existing test suite still passes completely (`cargo test --offline --lib` : 187 unit tests, and `cargo test --offline --doc` : 7 doctests, all green), and
  2. BREAKS the property above — a genuine, clear-cut violation of the statement as written, for inputs/histories/schedules inside what the property quantifies over. It must be REALISTIC: the kind of change that shows up in real commit histories of such a crate — a refactor that moves or merges code, performance work (avoiding clones, allocations, repeated lock acquisitions, repeated look-ups), an error-handling clean-up, a migration to another std/rust_decimal API, a new small feature or a new limit with a side effect, a simplification that loses an edge case, a changed lock scope or lock type, a reordered statement, an off-by-one, a wrong constant, a copy-paste slip between two sibling functions. It should read like an honest commit (with a believable commit message in your notes), not like sabotage, and should be small (typically 1-30 changed lines). It should also not be trivially visible: it needs some specific circumstance to manifest (particular values, sizes, orders of registration and use, character classes, build profile, second call, position in a larger program, combination of two features), so that a tester which only tries a few ordinary inputs would miss it.
  3. comes with a demonstration: an integration test file `tests/demo_@ID@_<a|b>.rs` (using only the crate's public API; if you need to see tokens, descriptor registration or literals, the crate has an off-by-default cargo feature `verif_hooks` exposing `expression_engine::verif_hooks::{tokenize, DescriptorManager, Literal, set_init_probe}` — then put `#![cfg(feature = "verif_hooks")]` at the top of the demo and run it with `--features verif_hooks`) that FAILS with your change applied and PASSES on the untouched worktree. The demo should directly exhibit the violation of the property's statement (not merely detect that code changed).

The following ideas have ALREADY been used by others — do NOT reuse them or close variants; find different mechanisms, different code sites and different triggers:
@USED@

@EXTRA@Read the code first (start from README.md and src/lib.rs; it is ~3 kLOC). Note that all registries (operators, functions, descriptors) are process-global statics, so integration tests in one file share them; use one #[test] per file or unique names where that matters.

Deliverables — write them under @ROOT@/@ID@/_out/a/ and @ROOT@/@ID@/_out/b/ (create the directories):
  - `patch.diff`: output of `git diff -- src Cargo.toml` for that mutant only, relative to the worktree's HEAD (so that `git apply patch.diff` on a clean checkout of HEAD reproduces it). It must NOT contain the demo file.
  - `demo.rs`: the demonstration test file (copy of tests/demo_@ID@_<a|b>.rs), and `demo_cmd.txt`: the exact cargo command that runs it.
  - `README.md`: 5-15 lines: the commit message you would write, what was changed, why it compiles and passes the existing tests, what exactly is needed for the violation to manifest (the specific input / sequence / interleaving), and the observed demo output with and without the change.
Work on one mutant at a time: make the change, run the existing suite (--lib and --doc), run the demo (fails), save the deliverables, then `git checkout -- src Cargo.toml` and confirm the demo passes on the clean tree, before starting the next one. Leave the worktree clean of source changes at the end (only `_out/` and the `tests/demo_*.rs` files may remain). When finished, reply with a short summary (per mutant: one line on the change, one line on what it needs to manifest, and confirmation of the three checks: suite green with change / demo fails with change / demo passes without).
'''
for i, p in props.items():
    prop = "%s — %s\n\nStatement: %s\n\nQuantified over: %s" % (i, p['title'], p['statement'], p['quantifier']['text'])
    u = "\n".join("  - " + x for x in used.get(i, []))
    open('%s/%s.prompt.txt' % (root, i), 'w').write(base.replace('@ROOT@', root).replace('@ID@', i).replace('@PROP@', prop).replace('@USED@', u).replace('@EXTRA@', (extra + '\n\n') if extra else ''))
print(len([f for f in os.listdir(root) if f.endswith('.prompt.txt')]), "prompts written")
