#!/usr/bin/env python3
"""usage: tools/absorb_seed.py <PROP> <srcdir with patch.diff demo.rs demo_cmd.txt README.md> <new id, e.g. C07v> "<needs to manifest>" [<other PROP>...]
Confirms an independently written property-breaking change (tools/verify_seeded.sh, scratch worktree), runs the committed quick
check of its property (and of the other properties named) against it with tools/try_mutant.sh (/repo patched, then restored),
and files it under /verif/seeded/<id>/ with a meta.json. Nothing is filed when the change is not confirmed."""
import json, os, re, shutil, subprocess, sys
prop, src, sid, needs = sys.argv[1:5]
others = sys.argv[5:]
v = subprocess.run(['/verif/tools/verify_seeded.sh', src, 'abs' + sid], capture_output=True, text=True).stdout.strip().split('\n')[-1]
print(v)
ok = ('apply=ok' in v and v.count('187 passed; 0 failed') == 1 and '7 passed; 0 failed' in v.split('doc=')[1]
      and 'demo_with_patch_rc=101' in v and 'demo_without_rc=0' in v)
if not ok:
    print('NOT CONFIRMED: nothing filed'); sys.exit(3)
det = {}
for p in [prop] + others:
    if os.environ.get('ABSORB_SANDBOX'):
        # /repo itself is busy (a background run builds from it): run the check against a patched scratch copy instead
        out = subprocess.run(['/verif/tools/dev_sandbox.sh', 'abs' + sid, os.path.join(src, 'patch.diff'), p], capture_output=True, text=True, env=dict(os.environ, SHOW='3')).stdout
        subprocess.run(['/verif/tools/dev_sandbox.sh', '--rm', 'abs' + sid])
    else:
        out = subprocess.run(['/verif/tools/try_mutant.sh', os.path.join(src, 'patch.diff'), p], capture_output=True, text=True, env=dict(os.environ, SHOW='3')).stdout
    print(out)
    m = re.search(r'exit=(\d+) violations=(\d+)', out)
    w = re.search(r'^  what: (.*)$', out, re.M)
    wall = re.search(r'wall=([\d.]+)s', out)
    det['%s/quick' % p] = {'exit': int(m.group(1)), 'violation_lines': int(m.group(2)), 'first_witness': ('what: ' + w.group(1)[:400]) if w else '',
                           'wall_s': float(wall.group(1)) if wall else None,
                           'how': ('tools/dev_sandbox.sh: check as committed, run against a patched scratch copy of /repo (removed afterwards) because /repo was in use by a background run' if os.environ.get('ABSORB_SANDBOX') else 'tools/try_mutant.sh: patch applied to /repo, check as committed, /repo restored afterwards')}
d = '/verif/seeded/' + sid
os.makedirs(d, exist_ok=True)
for f, t in (('patch.diff', 'patch.diff'), ('demo.rs', 'demo.rs'), ('demo_cmd.txt', 'demo_cmd.txt'), ('README.md', 'AUTHOR_NOTES.md')):
    shutil.copy(os.path.join(src, f), os.path.join(d, t))
head = subprocess.run(['git', '-C', '/repo', 'rev-parse', '--short', 'HEAD'], capture_output=True, text=True).stdout.strip()
meta = {'id': sid, 'property': prop,
        'origin': 'short round: independent sub-agent given only the property text, a scratch worktree of /repo at %s, one-line summaries of the earlier ideas to avoid, and the realistic-commit brief (one change per agent, 8-minute budget)' % head,
        'needs_to_manifest': needs,
        'confirmed': {'how': 'tools/verify_seeded.sh in a scratch worktree of /repo HEAD (removed afterwards): patch applies; `cargo test --offline --lib` 187 passed and `--doc` 7 passed with the patch; demo.rs fails with the patch (exit 101) and passes without (exit 0)', 'result': 'confirmed'},
        'files': ['AUTHOR_NOTES.md', 'demo.rs', 'demo_cmd.txt', 'patch.diff'],
        'detection_before_strengthening': det, 'detection': det}
json.dump(meta, open(d + '/meta.json', 'w'), indent=1)
print('filed', sid, {k: x['exit'] for k, x in det.items()})
