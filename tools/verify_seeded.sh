#!/bin/bash
# usage: tools/verify_seeded.sh <srcdir with patch.diff demo.rs demo_cmd.txt> <label>
# confirms in a scratch worktree of /repo HEAD: patch applies; existing suite passes with it; demo fails with it, passes without
src="$1"; label="$2"
wt=/tmp/mv_$label
rm -rf $wt; git -C /repo worktree prune; git -C /repo worktree add -q --detach $wt HEAD || exit 2
cd $wt
rel=""; grep -q -- "--release" "$src/demo_cmd.txt" 2>/dev/null && rel="--release"; feat=""; grep -q verif_hooks "$src/demo_cmd.txt" 2>/dev/null && feat="--features verif_hooks"
grep -q 'cfg(feature = "verif_hooks")' "$src/demo.rs" && feat="--features verif_hooks"
mkdir -p tests; cp "$src/demo.rs" tests/demo_seeded.rs
res_apply=ok; git apply "$src/patch.diff" || res_apply=FAIL
suite=$(CARGO_NET_OFFLINE=true cargo test --offline --lib --bins 2>&1 | grep -E "^test result" | head -1)
doc=$(CARGO_NET_OFFLINE=true cargo test --offline --doc 2>&1 | grep -E "^test result" | head -1)
CARGO_NET_OFFLINE=true timeout 600 cargo test --offline $rel $feat --test demo_seeded >/tmp/mv_$label.with.log 2>&1; rc_with=$?
git checkout -q -- src Cargo.toml
CARGO_NET_OFFLINE=true timeout 600 cargo test --offline $rel $feat --test demo_seeded >/tmp/mv_$label.without.log 2>&1; rc_without=$?
echo "$label apply=$res_apply suite=[$suite] doc=[$doc] demo_with_patch_rc=$rc_with demo_without_rc=$rc_without"
cd /; git -C /repo worktree remove --force $wt
