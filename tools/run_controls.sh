#!/bin/bash
# applies each property-preserving control patch to /repo and runs every quick check: all must stay silent (exit 0)
cd /repo || exit 2
git diff --quiet || { echo "/repo dirty"; exit 2; }
for f in /verif/validation/controls/*.diff; do
  git apply "$f" || { echo "$(basename $f): does not apply"; continue; }
  line="$(basename $f):"
  for i in 01 02 03 04 05 06 07 08 09 10 11 12 13 14 15 16 17 18; do
    out=$(cd /verif && ./check C$i --tier quick 2>&1); rc=$?
    if [ $rc -ne 0 ]; then line="$line C$i=ALARM(rc=$rc)"; echo "$out" | grep -A1 -E "^VIOLATION|HARNESS" | head -4 | cut -c1-300; else line="$line C$i=ok"; fi
  done
  echo "$line"
  git checkout -- .
done
