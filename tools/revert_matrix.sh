#!/bin/bash
# Reverts each fix: commit of /repo on the working tree (git show | git apply -R), runs the checks of the
# properties it repaired, and restores the tree. Every one of these runs must report VIOLATION (exit 1).
cd /repo || exit 2
git diff --quiet || { echo "/repo dirty"; exit 2; }
declare -A PROPS=( [956b983]="C01 C10" [cb88ef7]="C05" [7291dd1]="C05" [040007d]="C08" [20eda81]="C02" [ac2c43d]="C04 C01 C03" [2c5ad48]="C17 C03" [4f65dc5]="C14 C15" [8ca4556]="C18" [1fb55eb]="C12" [31f0f2c]="C05 C09" [68a048b]="C09 C03" [4aaeb6d]="C05 C10" [2445fd6]="C13" )
for c in 956b983 cb88ef7 7291dd1 040007d 20eda81 2c5ad48 4f65dc5 8ca4556 31f0f2c 68a048b 4aaeb6d 2445fd6; do
  git show $c | git apply -R || { echo "$c: reverse patch does not apply"; git checkout -- .; continue; }
  for p in ${PROPS[$c]}; do
    out=$(cd /verif && ./check $p --tier quick 2>&1); rc=$?
    echo "revert $c ($(git log -1 --format=%s $c | cut -c1-60)) -> $p exit=$rc violations=$(echo "$out" | grep -c '^VIOLATION') :: $(echo "$out" | grep -m1 'what:' | cut -c1-160)"
  done
  git checkout -- .
done
# repairs whose lines were touched again by a later repair are reverted together with it (later one first):
# 1fb55eb (expr parentheses) <- 281ee41 (word postfix operators); ac2c43d (checked arithmetic) <- 68a048b (exact remainder)
while IFS='|' read -r combo props; do
  ok=1; for c in $combo; do git show $c | git apply -R 2>/dev/null || ok=0; done
  if [ $ok = 1 ]; then
    for p in $props; do
      out=$(cd /verif && ./check $p --tier quick 2>&1); rc=$?
      echo "revert $combo -> $p exit=$rc violations=$(echo "$out" | grep -c '^VIOLATION') :: $(echo "$out" | grep -m1 'what:' | cut -c1-160)"
    done
  else echo "$combo: reverse patch does not apply"; fi
  git checkout -- .
done <<'EOT'
281ee41|C12
281ee41 1fb55eb|C12
68a048b ac2c43d|C04 C01 C03
EOT
