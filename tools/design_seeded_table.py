#!/usr/bin/env python3
"""prints the markdown table of section 10 of DESIGN.md from /verif/seeded/*/meta.json"""
import json, os
root = "/verif/seeded"
print("| id | property | what it needs to manifest | own quick check | first run (before strengthening) |")
print("|---|---|---|---|---|")
for sid in sorted(os.listdir(root)):
    m = json.load(open(os.path.join(root, sid, "meta.json")))
    det = m.get("detection", {})
    own = det.get("%s/quick" % m["property"], {})
    before = m.get("detection_before_strengthening", {}).get("%s/quick" % m["property"])
    b = "" if before is None else ("caught" if before.get("exit") == 1 else "**missed**")
    if sid[-1] in "ab":
        b = "caught"
    print("| %s | %s | %s | %s | %s |" % (sid, m["property"], m["needs_to_manifest"].replace("|", "\\|"), "caught (%d witnesses listed)" % own.get("violation_lines", 0) if own.get("exit") == 1 else "NOT caught", b))
