#!/usr/bin/env python3
"""Rewrites the 'quick evals / time' column of the sizes table in DESIGN.md (section 9) from /verif/evidence/*.json."""
import json, re, ast
p = "/verif/DESIGN.md"
s = open(p).read()
def fmt(n):
    if n >= 1e6:
        return ("%.1fe6" % (n / 1e6)).replace(".0e", "e")
    if n >= 1e4:
        e = len(str(int(n))) - 1
        return "%.1fe%d" % (n / 10 ** e, e)
    return str(int(n))
for i in range(1, 19):
    pid = "C%02d" % i
    e = json.load(open("/verif/evidence/%s.json" % pid))
    c = e["coverage"]
    if isinstance(c, str):
        c = ast.literal_eval(c)
    cell = "%s / %d s" % (fmt(c["evaluations"]), max(1, round(e["wall_s"])))
    m = re.search(r"^\| %s \| (.*?) \| ([^|]*?) \| (.*?) \|$" % pid, s, re.M)
    if m:
        s = s[:m.start(2)] + cell + s[m.end(2):]
open(p, "w").write(s)
print("sizes refreshed")
