#!/bin/bash
# Development aid (not used by any registered command): runs a check against a PATCHED COPY of /repo while /repo itself is busy.
# usage: tools/dev_sandbox.sh <name> <patch.diff|-> <PROP> [<PROP>...]
# Builds /tmp/devsb/<name>/{repo = scratch worktree of /repo HEAD + patch, verif = copy of /verif's working tree whose harness
# depends on that worktree}. Remove with: tools/dev_sandbox.sh --rm <name>
if [ "$1" = "--rm" ]; then git -C /repo worktree remove --force /tmp/devsb/$2/repo 2>/dev/null; rm -rf /tmp/devsb/$2; git -C /repo worktree prune; exit 0; fi
name="$1"; patch="$2"; shift 2
sb=/tmp/devsb/$name
if [ ! -d $sb/repo ]; then
  mkdir -p $sb && git -C /repo worktree add -q --detach $sb/repo HEAD || exit 2
  [ "$patch" != "-" ] && { git -C $sb/repo apply "$patch" || { echo "patch does not apply"; exit 2; }; }
fi
mkdir -p $sb/verif
rsync -a --delete --exclude target --exclude work --exclude replays --exclude .git --exclude seeded /verif/ $sb/verif/
# optional: OLDREV=<commit> OLDFILES="vlib/props/c10.py ..." replaces those files by their version at that commit (first-run records)
for f in $OLDFILES; do git -C /verif show $OLDREV:$f > $sb/verif/$f; done
sed -i "s#path = \"/repo\"#path = \"$sb/repo\"#" $sb/verif/harness/Cargo.toml
[ -d $sb/verif/target ] || { mkdir -p $sb/verif/target; cp -a /verif/target/verifdbg /verif/target/release $sb/verif/target/ 2>/dev/null; }
cd $sb/verif
for p in "$@"; do
  out=$(timeout 3000 ./check "$p" --tier ${VERIF_TIER:-quick} 2>&1); rc=$?
  echo "== $p in sandbox $name: exit=$rc violations=$(echo "$out" | grep -c '^VIOLATION')"
  echo "$out" | grep -E "^(VIOLATION|  what|HARNESS|INCONCLUSIVE)" | head -${SHOW:-4} | cut -c1-400
  echo "$out" | tail -1
done
