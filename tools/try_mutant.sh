#!/bin/bash
# usage: tools/try_mutant.sh <patch.diff> <PROP> [<PROP>...]   applies the patch to /repo, runs the checks, restores /repo
patch="$1"; shift
cd /repo || exit 2
if ! git diff --quiet; then echo "/repo is dirty"; exit 2; fi
git apply "$patch" || { echo "patch does not apply"; exit 2; }
for p in "$@"; do
  out=$(cd /verif && VERIF_TIER=${VERIF_TIER:-quick} timeout 3000 ./check "$p" --tier ${VERIF_TIER:-quick} 2>&1); rc=$?
  nv=$(echo "$out" | grep -c '^VIOLATION')
  echo "== $p on $(basename $(dirname $patch))/$(basename $patch): exit=$rc violations=$nv"
  echo "$out" | grep -E "^(VIOLATION|  what|HARNESS|INCONCLUSIVE|KNOWN)" | head -${SHOW:-6} | cut -c1-400
  echo "$out" | tail -1
done
git checkout -- . ; git status --short
