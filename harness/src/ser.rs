//! Serialisation of engine values and ASTs to the JSON forms the python oracles use.
use crate::json::{esc, J};
use expression_engine::verif_hooks::Literal;
use expression_engine::{ExprAST, Value};
use rust_decimal::Decimal;
use std::fmt::Write;

pub fn dec(out: &mut String, d: &Decimal) {
    if d.is_zero() && d.is_sign_negative() {
        let _ = write!(out, "[\"n\",\"0\",{},true]", d.scale());
    } else {
        let _ = write!(out, "[\"n\",\"{}\",{}]", d.mantissa(), d.scale());
    }
}

pub fn value(out: &mut String, v: &Value) {
    match v {
        Value::None => out.push_str("[\"z\"]"),
        Value::Bool(b) => {
            let _ = write!(out, "[\"b\",{}]", b);
        }
        Value::Number(d) => dec(out, d),
        Value::String(s) => {
            out.push_str("[\"s\",");
            esc(out, s);
            out.push(']');
        }
        Value::List(l) => {
            out.push_str("[\"l\",[");
            for (i, x) in l.iter().enumerate() {
                if i > 0 {
                    out.push(',');
                }
                value(out, x);
            }
            out.push_str("]]");
        }
        Value::Map(m) => {
            out.push_str("[\"m\",[");
            for (i, (k, x)) in m.iter().enumerate() {
                if i > 0 {
                    out.push(',');
                }
                out.push('[');
                value(out, k);
                out.push(',');
                value(out, x);
                out.push(']');
            }
            out.push_str("]]");
        }
    }
}

pub fn value_s(v: &Value) -> String {
    let mut s = String::new();
    value(&mut s, v);
    s
}

pub fn value_from_json(j: &J) -> Result<Value, String> {
    let a = j.arr();
    if a.is_empty() {
        return Err("value: not an array".into());
    }
    match a[0].str() {
        "z" => Ok(Value::None),
        "b" => Ok(Value::Bool(a[1].bool())),
        "s" => Ok(Value::String(a[1].str().to_string())),
        "n" => {
            let m: i128 = a[1].str().parse().map_err(|_| "mantissa")?;
            let sc = a[2].int() as u32;
            let mut d = Decimal::try_from_i128_with_scale(m.abs(), sc).map_err(|e| e.to_string())?;
            if m < 0 || (m == 0 && a.len() > 3 && a[3].bool()) {
                d.set_sign_negative(true);
            }
            Ok(Value::Number(d))
        }
        "l" => {
            let mut v = Vec::new();
            for x in a[1].arr() {
                v.push(value_from_json(x)?);
            }
            Ok(Value::List(v))
        }
        "m" => {
            let mut v = Vec::new();
            for x in a[1].arr() {
                let p = x.arr();
                v.push((value_from_json(&p[0])?, value_from_json(&p[1])?));
            }
            Ok(Value::Map(v))
        }
        t => Err(format!("value tag {}", t)),
    }
}

/// Serialises an AST; `base`/`len` are the input buffer's address range and are used to record
/// where each borrowed string of the AST lies in the input (pushed to `slices` as (kind, off, len),
/// off = -1 when the string is not inside the buffer).
pub struct AstSer {
    pub out: String,
    pub slices: Vec<(&'static str, i64, usize)>,
    pub base: usize,
    pub len: usize,
    pub nodes: usize,
}

impl AstSer {
    pub fn new(input: &str) -> Self {
        AstSer {
            out: String::new(),
            slices: Vec::new(),
            base: input.as_ptr() as usize,
            len: input.len(),
            nodes: 0,
        }
    }
    fn slice(&mut self, kind: &'static str, s: &str) {
        let p = s.as_ptr() as usize;
        let off = if p >= self.base && p + s.len() <= self.base + self.len {
            (p - self.base) as i64
        } else {
            -1
        };
        self.slices.push((kind, off, s.len()));
    }
    pub fn ast(&mut self, a: &ExprAST) {
        self.nodes += 1;
        match a {
            ExprAST::Literal(l) => match l {
                Literal::Number(d) => {
                    let _ = write!(self.out, "[\"num\",\"{}\",{}]", d.mantissa(), d.scale());
                }
                Literal::Bool(b) => {
                    let _ = write!(self.out, "[\"bool\",{}]", b);
                }
                Literal::String(s) => {
                    self.slice("str", s);
                    self.out.push_str("[\"str\",");
                    esc(&mut self.out, s);
                    self.out.push(']');
                }
            },
            ExprAST::Unary(op, r) => {
                self.slice("op", op);
                self.out.push_str("[\"un\",");
                esc(&mut self.out, op);
                self.out.push(',');
                self.ast(r);
                self.out.push(']');
            }
            ExprAST::Binary(op, l, r) => {
                self.slice("op", op);
                self.out.push_str("[\"bin\",");
                esc(&mut self.out, op);
                self.out.push(',');
                self.ast(l);
                self.out.push(',');
                self.ast(r);
                self.out.push(']');
            }
            ExprAST::Postfix(l, op) => {
                self.out.push_str("[\"post\",");
                self.ast(l);
                self.out.push(',');
                esc(&mut self.out, op);
                self.out.push(']');
            }
            ExprAST::Ternary(c, l, r) => {
                self.out.push_str("[\"tern\",");
                self.ast(c);
                self.out.push(',');
                self.ast(l);
                self.out.push(',');
                self.ast(r);
                self.out.push(']');
            }
            ExprAST::Reference(n) => {
                self.slice("ref", n);
                self.out.push_str("[\"ref\",");
                esc(&mut self.out, n);
                self.out.push(']');
            }
            ExprAST::Function(n, args) => {
                self.slice("func", n);
                self.out.push_str("[\"fn\",");
                esc(&mut self.out, n);
                self.out.push_str(",[");
                for (i, x) in args.iter().enumerate() {
                    if i > 0 {
                        self.out.push(',');
                    }
                    self.ast(x);
                }
                self.out.push_str("]]");
            }
            ExprAST::List(items) => {
                self.out.push_str("[\"list\",[");
                for (i, x) in items.iter().enumerate() {
                    if i > 0 {
                        self.out.push(',');
                    }
                    self.ast(x);
                }
                self.out.push_str("]]");
            }
            ExprAST::Map(items) => {
                self.out.push_str("[\"map\",[");
                for (i, (k, v)) in items.iter().enumerate() {
                    if i > 0 {
                        self.out.push(',');
                    }
                    self.out.push('[');
                    self.ast(k);
                    self.out.push(',');
                    self.ast(v);
                    self.out.push(']');
                }
                self.out.push_str("]]");
            }
            ExprAST::Stmt(items) => {
                self.out.push_str("[\"stmt\",[");
                for (i, x) in items.iter().enumerate() {
                    if i > 0 {
                        self.out.push(',');
                    }
                    self.ast(x);
                }
                self.out.push_str("]]");
            }
            ExprAST::None => self.out.push_str("[\"none\"]"),
        }
    }
    pub fn slices_json(&self) -> String {
        let mut s = String::from("[");
        for (i, (k, off, len)) in self.slices.iter().enumerate() {
            if i > 0 {
                s.push(',');
            }
            let _ = write!(s, "[\"{}\",{},{}]", k, off, len);
        }
        s.push(']');
        s
    }
}
