//! In-process supervisor run on the real main thread while the interpreter thread works.
//!
//! Verdicts are taken on logical state, never on elapsed wall time alone:
//!  * livelock: no step completed while the process burned >= `cpu_budget_s` of CPU time;
//!  * deadlock: no step completed, no CPU consumed, and every other thread sleeps in an *untimed*
//!    futex wait (nothing in these workloads could ever wake them).
use crate::{emit, PROGRESS};
use std::sync::atomic::Ordering;
use std::thread::JoinHandle;
use std::time::Duration;

fn self_tid() -> Option<String> {
    std::fs::read_link("/proc/thread-self")
        .ok()
        .and_then(|p| p.file_name().map(|s| s.to_string_lossy().to_string()))
}

struct Task {
    tid: String,
    state: char,
    cpu_ticks: u64,
    syscall: String,
}

fn tasks() -> Vec<Task> {
    let mut v = Vec::new();
    if let Ok(rd) = std::fs::read_dir("/proc/self/task") {
        for e in rd.flatten() {
            let tid = e.file_name().to_string_lossy().to_string();
            let stat = std::fs::read_to_string(e.path().join("stat")).unwrap_or_default();
            // fields after the ")" that closes the command name
            let rest = stat.rsplit_once(')').map(|x| x.1).unwrap_or("");
            let f: Vec<&str> = rest.split_whitespace().collect();
            let state = f.first().and_then(|s| s.chars().next()).unwrap_or('?');
            let ut: u64 = f.get(11).and_then(|s| s.parse().ok()).unwrap_or(0);
            let stt: u64 = f.get(12).and_then(|s| s.parse().ok()).unwrap_or(0);
            let syscall = std::fs::read_to_string(e.path().join("syscall")).unwrap_or_default();
            v.push(Task {
                tid,
                state,
                cpu_ticks: ut + stt,
                syscall: syscall.trim().to_string(),
            });
        }
    }
    v
}

fn untimed_futex_wait(sc: &str) -> bool {
    // "202 uaddr op val timeout ..." — futex with a NULL timeout
    let f: Vec<&str> = sc.split_whitespace().collect();
    f.len() >= 5 && f[0] == "202" && f[4] == "0x0"
}

pub fn supervise(worker: JoinHandle<()>, cpu_budget_s: u64) -> i32 {
    if cfg!(miri) {
        return match worker.join() {
            Ok(_) => 0,
            Err(_) => 2,
        };
    }
    let me = self_tid().unwrap_or_default();
    let ticks_per_s = 100u64; // USER_HZ on Linux
    let mut last_progress = PROGRESS.load(Ordering::Relaxed);
    let mut cpu_at_progress: u64 = tasks().iter().filter(|t| t.tid != me).map(|t| t.cpu_ticks).sum();
    let mut quiet_checks = 0u32;
    let mut last_cpu = cpu_at_progress;
    loop {
        if worker.is_finished() {
            return match worker.join() {
                Ok(_) => 0,
                Err(_) => 2,
            };
        }
        // sample every 50 ms, but notice the end of a short scenario within a millisecond
        let t = std::time::Instant::now();
        while t.elapsed() < Duration::from_millis(50) && !worker.is_finished() {
            std::thread::sleep(Duration::from_micros(if t.elapsed() < Duration::from_millis(5) { 200 } else { 2000 }));
        }
        if worker.is_finished() {
            continue;
        }
        let p = PROGRESS.load(Ordering::Relaxed);
        let ts = tasks();
        // the supervisor's own polling is not the program's work: its thread is left out of every CPU sum
        let cpu: u64 = ts.iter().filter(|t| t.tid != me).map(|t| t.cpu_ticks).sum();
        if p != last_progress {
            last_progress = p;
            cpu_at_progress = cpu;
            quiet_checks = 0;
            last_cpu = cpu;
            continue;
        }
        if cpu.saturating_sub(cpu_at_progress) >= cpu_budget_s * ticks_per_s {
            emit(&format!(
                "{{\"hang\":{{\"progress\":{},\"cpu_s\":{}}}}}",
                p,
                (cpu - cpu_at_progress) / ticks_per_s
            ));
            return 3;
        }
        if cpu == last_cpu {
            quiet_checks += 1;
        } else {
            quiet_checks = 0;
            last_cpu = cpu;
        }
        if quiet_checks >= 20 {
            let others: Vec<&Task> = ts.iter().filter(|t| t.tid != me).collect();
            if !others.is_empty()
                && others
                    .iter()
                    .all(|t| t.state == 'S' && untimed_futex_wait(&t.syscall))
            {
                // confirm on a second sample that nothing moved
                std::thread::sleep(Duration::from_millis(200));
                let ts2 = tasks();
                let cpu2: u64 = ts2.iter().filter(|t| t.tid != me).map(|t| t.cpu_ticks).sum();
                let still = ts2
                    .iter()
                    .filter(|t| t.tid != me)
                    .all(|t| t.state == 'S' && untimed_futex_wait(&t.syscall));
                if still && cpu2 == cpu && PROGRESS.load(Ordering::Relaxed) == p {
                    let desc: Vec<String> = ts2
                        .iter()
                        .filter(|t| t.tid != me)
                        .map(|t| format!("{}:{}:{}", t.tid, t.state, t.syscall))
                        .collect();
                    emit(&format!(
                        "{{\"deadlock\":{{\"progress\":{},\"threads\":{}}}}}",
                        p,
                        crate::json::q(&desc.join(" | "))
                    ));
                    return 4;
                }
            }
            quiet_checks = 0;
        }
    }
}
