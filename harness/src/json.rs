//! Minimal JSON value, parser and writer (no third-party crates).
use std::collections::BTreeMap;
use std::fmt::Write;

#[derive(Clone, Debug, PartialEq)]
pub enum J {
    Null,
    Bool(bool),
    Num(f64),
    Int(i64),
    Str(String),
    Arr(Vec<J>),
    Obj(BTreeMap<String, J>),
}

static NULL: J = J::Null;

impl J {
    pub fn get(&self, k: &str) -> &J {
        match self {
            J::Obj(m) => m.get(k).unwrap_or(&NULL),
            _ => &NULL,
        }
    }
    pub fn has(&self, k: &str) -> bool {
        matches!(self, J::Obj(m) if m.contains_key(k))
    }
    pub fn str(&self) -> &str {
        match self {
            J::Str(s) => s,
            _ => "",
        }
    }
    pub fn int(&self) -> i64 {
        match self {
            J::Int(i) => *i,
            J::Num(f) => *f as i64,
            J::Bool(b) => *b as i64,
            _ => 0,
        }
    }
    pub fn int_or(&self, d: i64) -> i64 {
        match self {
            J::Null => d,
            _ => self.int(),
        }
    }
    pub fn bool(&self) -> bool {
        match self {
            J::Bool(b) => *b,
            J::Int(i) => *i != 0,
            _ => false,
        }
    }
    pub fn arr(&self) -> &[J] {
        match self {
            J::Arr(a) => a,
            _ => &[],
        }
    }
    pub fn is_null(&self) -> bool {
        matches!(self, J::Null)
    }
    pub fn obj(&self) -> Option<&BTreeMap<String, J>> {
        match self {
            J::Obj(m) => Some(m),
            _ => None,
        }
    }
}

pub struct P<'a> {
    s: &'a [u8],
    i: usize,
}

pub fn parse(s: &str) -> Result<J, String> {
    let mut p = P {
        s: s.as_bytes(),
        i: 0,
    };
    let v = p.value()?;
    p.ws();
    if p.i != p.s.len() {
        return Err(format!("trailing data at {}", p.i));
    }
    Ok(v)
}

impl<'a> P<'a> {
    fn ws(&mut self) {
        while self.i < self.s.len() && matches!(self.s[self.i], b' ' | b'\n' | b'\t' | b'\r') {
            self.i += 1;
        }
    }
    fn value(&mut self) -> Result<J, String> {
        self.ws();
        if self.i >= self.s.len() {
            return Err("eof".into());
        }
        match self.s[self.i] {
            b'{' => {
                self.i += 1;
                let mut m = BTreeMap::new();
                self.ws();
                if self.s.get(self.i) == Some(&b'}') {
                    self.i += 1;
                    return Ok(J::Obj(m));
                }
                loop {
                    self.ws();
                    let k = match self.value()? {
                        J::Str(s) => s,
                        _ => return Err("key".into()),
                    };
                    self.ws();
                    if self.s.get(self.i) != Some(&b':') {
                        return Err(format!("colon at {}", self.i));
                    }
                    self.i += 1;
                    let v = self.value()?;
                    m.insert(k, v);
                    self.ws();
                    match self.s.get(self.i) {
                        Some(b',') => self.i += 1,
                        Some(b'}') => {
                            self.i += 1;
                            return Ok(J::Obj(m));
                        }
                        _ => return Err(format!("obj at {}", self.i)),
                    }
                }
            }
            b'[' => {
                self.i += 1;
                let mut a = Vec::new();
                self.ws();
                if self.s.get(self.i) == Some(&b']') {
                    self.i += 1;
                    return Ok(J::Arr(a));
                }
                loop {
                    a.push(self.value()?);
                    self.ws();
                    match self.s.get(self.i) {
                        Some(b',') => self.i += 1,
                        Some(b']') => {
                            self.i += 1;
                            return Ok(J::Arr(a));
                        }
                        _ => return Err(format!("arr at {}", self.i)),
                    }
                }
            }
            b'"' => {
                self.i += 1;
                let mut out: Vec<u8> = Vec::new();
                loop {
                    let c = *self.s.get(self.i).ok_or("unterminated string")?;
                    self.i += 1;
                    match c {
                        b'"' => break,
                        b'\\' => {
                            let e = *self.s.get(self.i).ok_or("escape")?;
                            self.i += 1;
                            match e {
                                b'n' => out.push(b'\n'),
                                b't' => out.push(b'\t'),
                                b'r' => out.push(b'\r'),
                                b'b' => out.push(8),
                                b'f' => out.push(12),
                                b'/' => out.push(b'/'),
                                b'\\' => out.push(b'\\'),
                                b'"' => out.push(b'"'),
                                b'u' => {
                                    let mut cp = self.hex4()?;
                                    if (0xD800..0xDC00).contains(&cp) {
                                        if self.s.get(self.i) == Some(&b'\\')
                                            && self.s.get(self.i + 1) == Some(&b'u')
                                        {
                                            self.i += 2;
                                            let lo = self.hex4()?;
                                            cp = 0x10000 + ((cp - 0xD800) << 10) + (lo - 0xDC00);
                                        }
                                    }
                                    let ch = char::from_u32(cp).ok_or("bad codepoint")?;
                                    let mut b = [0u8; 4];
                                    out.extend_from_slice(ch.encode_utf8(&mut b).as_bytes());
                                }
                                _ => return Err("bad escape".into()),
                            }
                        }
                        _ => out.push(c),
                    }
                }
                String::from_utf8(out)
                    .map(J::Str)
                    .map_err(|_| "utf8".to_string())
            }
            b't' => self.lit("true", J::Bool(true)),
            b'f' => self.lit("false", J::Bool(false)),
            b'n' => self.lit("null", J::Null),
            _ => {
                let st = self.i;
                while self.i < self.s.len()
                    && matches!(self.s[self.i], b'0'..=b'9' | b'-' | b'+' | b'.' | b'e' | b'E')
                {
                    self.i += 1;
                }
                let t = std::str::from_utf8(&self.s[st..self.i]).unwrap();
                if let Ok(i) = t.parse::<i64>() {
                    return Ok(J::Int(i));
                }
                t.parse::<f64>()
                    .map(J::Num)
                    .map_err(|_| format!("number at {}", st))
            }
        }
    }
    fn hex4(&mut self) -> Result<u32, String> {
        let t = std::str::from_utf8(self.s.get(self.i..self.i + 4).ok_or("hex")?)
            .map_err(|_| "hex")?;
        self.i += 4;
        u32::from_str_radix(t, 16).map_err(|_| "hex".to_string())
    }
    fn lit(&mut self, w: &str, v: J) -> Result<J, String> {
        if self.s[self.i..].starts_with(w.as_bytes()) {
            self.i += w.len();
            Ok(v)
        } else {
            Err(format!("literal at {}", self.i))
        }
    }
}

/// Appends `s` as a JSON string literal.
pub fn esc(out: &mut String, s: &str) {
    out.push('"');
    for c in s.chars() {
        match c {
            '"' => out.push_str("\\\""),
            '\\' => out.push_str("\\\\"),
            '\n' => out.push_str("\\n"),
            '\r' => out.push_str("\\r"),
            '\t' => out.push_str("\\t"),
            c if (c as u32) < 0x20 => {
                let _ = write!(out, "\\u{:04x}", c as u32);
            }
            c => out.push(c),
        }
    }
    out.push('"');
}

pub fn q(s: &str) -> String {
    let mut o = String::with_capacity(s.len() + 2);
    esc(&mut o, s);
    o
}
