//! Bounded-exhaustive enumeration inside the executor, with the model-free monitors run online:
//! outcome must be Ok/Err (no panic) in every phase, tokens must tile the input, expr() must
//! re-parse to an equal tree. Only counters, violations, accepted inputs and a sample of full
//! records are written out.
use crate::json::{q, J};
use crate::{catch, emit, journal, ser};
use expression_engine::verif_hooks::{tokenize, Tok};
use expression_engine::{parse_expression, Context, Value};
use std::fmt::Write as _;

pub fn toks_json(toks: &[Tok], out: &mut String) {
    out.push('[');
    for (i, t) in toks.iter().enumerate() {
        if i > 0 {
            out.push(',');
        }
        let _ = write!(out, "[\"{}\",{},{},{}", t.kind, q(&t.text), t.start, t.end);
        if let Some((m, s)) = t.number {
            let _ = write!(out, ",\"{}\",{}", m, s);
        }
        out.push(']');
    }
    out.push(']');
}

fn is_ws(b: u8) -> bool {
    b == b' ' || b == b'\t' || b == b'\r' || b == b'\n'
}

/// The absolute (model-free) part of C10: spans in bounds, on char boundaries, strictly increasing,
/// gaps are whitespace only, text equals the covered slice. Returns a description of the first
/// violated invariant.
pub fn tiling_violation(s: &str, toks: &[Tok]) -> Option<String> {
    let b = s.as_bytes();
    let mut prev_end = 0usize;
    for (i, t) in toks.iter().enumerate() {
        if t.kind == "runaway" {
            return Some("runaway: more tokens than input bytes".into());
        }
        if t.start >= t.end {
            return Some(format!("token {} empty or reversed span {}..{}", i, t.start, t.end));
        }
        if t.end > b.len() {
            return Some(format!("token {} span {}..{} out of bounds", i, t.start, t.end));
        }
        if !s.is_char_boundary(t.start) || !s.is_char_boundary(t.end) {
            return Some(format!("token {} span {}..{} not on char boundary", i, t.start, t.end));
        }
        if t.start < prev_end {
            return Some(format!("token {} starts at {} before previous end {}", i, t.start, prev_end));
        }
        if !b[prev_end..t.start].iter().all(|c| is_ws(*c)) {
            return Some(format!("gap {}..{} before token {} is not whitespace", prev_end, t.start, i));
        }
        let slice = &s[t.start..t.end];
        match t.kind {
            "op" | "delim" | "comma" | "semi" | "ref" | "func" => {
                if t.text != slice {
                    return Some(format!("token {} text {:?} != slice {:?}", i, t.text, slice));
                }
            }
            "bool" => {
                let ok = match slice {
                    "true" | "True" => t.text == "true",
                    "false" | "False" => t.text == "false",
                    _ => false,
                };
                if !ok {
                    return Some(format!("bool token {} value {:?} for slice {:?}", i, t.text, slice));
                }
            }
            "str" => {
                let first = slice.chars().next().unwrap();
                let last = slice.chars().last().unwrap();
                if !(first == '"' || first == '\'') || first != last || slice.len() < 2 {
                    return Some(format!("string token {} slice {:?} not delimited by matching quotes", i, slice));
                }
                if t.text != slice[1..slice.len() - 1] {
                    return Some(format!("string token {} payload {:?} != inside of {:?}", i, t.text, slice));
                }
                if t.text.contains(first) {
                    return Some(format!("string token {} payload contains its delimiter", i));
                }
            }
            "num" => {
                let c0 = slice.as_bytes()[0];
                if !c0.is_ascii_digit()
                    || !slice
                        .bytes()
                        .all(|c| c.is_ascii_digit() || matches!(c, b'.' | b'e' | b'E' | b'+' | b'-'))
                {
                    return Some(format!("number token {} covers non-numeric slice {:?}", i, slice));
                }
            }
            other => return Some(format!("unknown token kind {}", other)),
        }
        prev_end = t.end;
    }
    if !toks.is_empty() && !b[prev_end..].iter().all(|c| is_ws(*c)) {
        return Some(format!("text after last token ({}..) is not whitespace", prev_end));
    }
    None
}

struct Stats {
    n: u64,
    accepted: u64,
    tok_ok: u64,
    tok_err: u64,
    ntokens: u64,
    exec_ok: u64,
    exec_err: u64,
    rt_checked: u64,
    violations: u64,
    sampled: u64,
}

fn violation(kind: &str, input: &str, detail: &str) {
    emit(&format!(
        "{{\"viol\":{},\"input\":{},\"detail\":{}}}",
        q(kind),
        q(input),
        q(detail)
    ));
}

fn populated_ctx() -> Context {
    let mut c = Context::new();
    c.set_variable("x", Value::from(3));
    c.set_variable("a", Value::from(true));
    c.set_variable("b", Value::from("s"));
    c.set_variable("t", Value::List(vec![Value::from(1), Value::from("s")]));
    c
}

struct Flags {
    tok: bool,
    exec: bool,
    rt: bool,
    log_accepted: bool,
    sample: u64,
    full: bool,
}

fn check_input(s: &str, idx: u64, fl: &Flags, st: &mut Stats) {
    st.n += 1;
    let sampled = fl.full || (fl.sample > 0 && idx % fl.sample == 0);
    let mut rec = String::new();
    if sampled {
        let _ = write!(rec, "{{\"rec\":{}", q(s));
    }
    if fl.tok {
        match catch(|| tokenize(s)) {
            Ok(Ok(toks)) => {
                st.tok_ok += 1;
                st.ntokens += toks.len() as u64;
                if let Some(v) = tiling_violation(s, &toks) {
                    st.violations += 1;
                    violation("tile", s, &v);
                }
                if sampled {
                    rec.push_str(",\"toks\":");
                    toks_json(&toks, &mut rec);
                }
            }
            Ok(Err(e)) => {
                st.tok_err += 1;
                if sampled {
                    let _ = write!(rec, ",\"terr\":{}", q(&format!("{:?}", e)));
                }
            }
            Err(p) => {
                st.violations += 1;
                violation("panic:tokenize", s, &format!("{} @ {}", p.0, p.1));
            }
        }
    }
    match catch(|| parse_expression(s)) {
        Ok(Ok(ast)) => {
            st.accepted += 1;
            if fl.log_accepted {
                emit(&format!("{{\"acc\":{}}}", q(s)));
            }
            let mut ser1 = ser::AstSer::new(s);
            match catch(|| ser1.ast(&ast)) {
                Ok(()) => {
                    // hook-free cross-check of C10: every borrowed string lies in the input
                    for (k, off, len) in &ser1.slices {
                        if *k == "op" && *off < 0 && *len == 3 {
                            continue; // the `not` of `x not OP y` is synthesised, not borrowed
                        }
                        if *off < 0
                            || !s.is_char_boundary(*off as usize)
                            || !s.is_char_boundary(*off as usize + *len)
                        {
                            st.violations += 1;
                            violation("slice", s, &format!("{} at {} len {}", k, off, len));
                        }
                    }
                    if sampled {
                        let _ = write!(rec, ",\"ast\":{}", ser1.out);
                    }
                }
                Err(p) => {
                    st.violations += 1;
                    violation("panic:walk", s, &format!("{} @ {}", p.0, p.1));
                }
            }
            match catch(|| ast.expr()) {
                Ok(e) => {
                    if sampled {
                        let _ = write!(rec, ",\"expr\":{}", q(&e));
                    }
                    if fl.rt {
                        st.rt_checked += 1;
                        match catch(|| parse_expression(&e)) {
                            Ok(Ok(t2)) => {
                                let mut s2 = ser::AstSer::new(&e);
                                s2.ast(&t2);
                                let e2 = t2.expr();
                                if t2 != ast || s2.out != ser1.out || e2 != e {
                                    emit(&format!(
                                        "{{\"rtfail\":{},\"ast\":{},\"expr\":{},\"ast2\":{},\"expr2\":{}}}",
                                        q(s),
                                        ser1.out,
                                        q(&e),
                                        s2.out,
                                        q(&e2)
                                    ));
                                }
                            }
                            Ok(Err(er)) => emit(&format!(
                                "{{\"rtfail\":{},\"ast\":{},\"expr\":{},\"err2\":{}}}",
                                q(s),
                                ser1.out,
                                q(&e),
                                q(&format!("{:?}", er))
                            )),
                            Err(p) => {
                                st.violations += 1;
                                violation("panic:reparse", &e, &format!("{} @ {}", p.0, p.1));
                            }
                        }
                    }
                }
                Err(p) => {
                    st.violations += 1;
                    violation("panic:expr", s, &format!("{} @ {}", p.0, p.1));
                }
            }
            match catch(|| ast.describe()) {
                Ok(d) => {
                    if sampled {
                        let _ = write!(rec, ",\"desc\":{}", q(&d));
                    }
                }
                Err(p) => {
                    st.violations += 1;
                    violation("panic:describe", s, &format!("{} @ {}", p.0, p.1));
                }
            }
            if fl.exec {
                for (ci, mut c) in [Context::new(), populated_ctx()].into_iter().enumerate() {
                    match catch(|| ast.exec(&mut c)) {
                        Ok(r) => {
                            if r.is_ok() {
                                st.exec_ok += 1;
                            } else {
                                st.exec_err += 1;
                            }
                            if sampled && ci == 1 {
                                match &r {
                                    Ok(v) => {
                                        let _ = write!(rec, ",\"res\":{{\"ok\":{}}}", ser::value_s(v));
                                    }
                                    Err(e) => {
                                        let _ = write!(
                                            rec,
                                            ",\"res\":{{\"err\":{}}}",
                                            q(&format!("{:?}", e))
                                        );
                                    }
                                }
                            }
                        }
                        Err(p) => {
                            st.violations += 1;
                            violation("panic:exec", s, &format!("{} @ {}", p.0, p.1));
                        }
                    }
                }
            }
        }
        Ok(Err(e)) => {
            if sampled {
                let _ = write!(rec, ",\"perr\":{}", q(&format!("{:?}", e)));
            }
        }
        Err(p) => {
            st.violations += 1;
            violation("panic:parse", s, &format!("{} @ {}", p.0, p.1));
        }
    }
    if sampled {
        st.sampled += 1;
        rec.push('}');
        emit(&rec);
    }
}

/// {"op":"enum","alphabet":[..],"minlen":0,"maxlen":4,"shard":0,"nshards":16,"join":""|" ",
///  "glue_call":true,"tok":true,"exec":true,"rt":true,"log_accepted":false,"sample":64,"full_upto":3}
pub fn run(j: &J, out: &mut String) {
    let alphabet: Vec<String> = j.get("alphabet").arr().iter().map(|x| x.str().to_string()).collect();
    let k = alphabet.len() as u64;
    let minlen = j.get("minlen").int_or(0) as u32;
    let maxlen = j.get("maxlen").int() as u32;
    let shard = j.get("shard").int_or(0) as u64;
    let nshards = j.get("nshards").int_or(1).max(1) as u64;
    let join = j.get("join").str().to_string();
    let glue_call = j.get("glue_call").bool();
    let full_upto = j.get("full_upto").int_or(0) as u32;
    let mut fl = Flags {
        tok: j.get("tok").bool(),
        exec: j.get("exec").bool(),
        rt: j.get("rt").bool(),
        log_accepted: j.get("log_accepted").bool(),
        sample: j.get("sample").int_or(0) as u64,
        full: false,
    };
    let mut st = Stats {
        n: 0,
        accepted: 0,
        tok_ok: 0,
        tok_err: 0,
        ntokens: 0,
        exec_ok: 0,
        exec_err: 0,
        rt_checked: 0,
        violations: 0,
        sampled: 0,
    };
    let mut global: u64 = 0;
    let mut s = String::new();
    for len in minlen..=maxlen {
        let total = k.pow(len);
        fl.full = len <= full_upto;
        let mut idx = shard;
        // distribute each length's index space round-robin over the shards
        if total <= shard {
            global += total;
            continue;
        }
        while idx < total {
            s.clear();
            let mut x = idx;
            let mut prev: &str = "";
            for pos in 0..len {
                let sym = &alphabet[(x % k) as usize];
                x /= k;
                if pos > 0 && !(glue_call && sym == "(" && prev == "f") {
                    s.push_str(&join);
                }
                s.push_str(sym);
                prev = sym;
            }
            journal(&format!("e{}:{}", len, idx));
            check_input(&s, global + idx, &fl, &mut st);
            idx += nshards;
        }
        global += total;
    }
    let _ = write!(
        out,
        ",\"enum\":{{\"n\":{},\"accepted\":{},\"tok_ok\":{},\"tok_err\":{},\"ntokens\":{},\"exec_ok\":{},\"exec_err\":{},\"rt_checked\":{},\"violations\":{},\"sampled\":{}}}",
        st.n, st.accepted, st.tok_ok, st.tok_err, st.ntokens, st.exec_ok, st.exec_err, st.rt_checked, st.violations, st.sampled
    );
}
