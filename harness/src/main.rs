//! vexec — scenario executor for the runtime monitors of /verif.
//!
//! `vexec <scenario.jsonl> <out.jsonl> [stack_mb]` interprets one scenario (one JSON step per line)
//! against the real crate and appends one JSON record per step to the output file. It contains
//! recorders and the monitors that must run inside the process (tiling invariants in enumeration
//! mode, lock probes, CPU-budget / deadlock watchdog); the semantic oracles live in /verif/vlib.
mod enumerate;
mod json;
mod ser;
mod watchdog;

use expression_engine::{
    execute, parse_expression, register_function, register_infix_op, register_postfix_op,
    register_prefix_op, Context, ExprAST, InfixOpAssociativity, InfixOpType, Value,
};
use json::{q, J};
use std::cell::RefCell;
use std::collections::HashMap;
use std::fmt::Write as _;
use std::fs::File;
use std::io::Write as _;
use std::os::unix::fs::FileExt;
use std::panic::{catch_unwind, AssertUnwindSafe};
use std::sync::atomic::{AtomicI64, AtomicU64, Ordering};
use std::sync::{Arc, Barrier, Condvar, Mutex, OnceLock};
use std::time::{Duration, Instant};

pub type EResult<T> = expression_engine::Result<T>;

// ------------------------------------------------------------------------------------------------
// process-wide state

pub static START: OnceLock<Instant> = OnceLock::new();
pub static PROGRESS: AtomicU64 = AtomicU64::new(0);
/// logical clock shared by the threads of a scenario ("tick" bumps it, "wait_tick" spins until it reaches n)
pub static TICK: AtomicU64 = AtomicU64::new(0);
/// number of logical-clock waits / rendezvous that gave up: a scenario with a non-zero count proves nothing about ordering
pub static GAVE_UP: AtomicU64 = AtomicU64::new(0);
/// rendezvous counters ("meet": every participating thread bumps counter k and spins until n threads have arrived)
static MEET: [AtomicU64; 4096] = {
    const Z: AtomicU64 = AtomicU64::new(0);
    [Z; 4096]
};
/// contexts with an id >= 1_000_000 are shared by all threads of the scenario
static SHARED_CTXS: OnceLock<Mutex<HashMap<i64, Context>>> = OnceLock::new();
pub static OUT: OnceLock<Mutex<File>> = OnceLock::new();
pub static JOURNAL: OnceLock<File> = OnceLock::new();

pub fn now_ns() -> u64 {
    START.get().unwrap().elapsed().as_nanos() as u64
}

pub fn emit(line: &str) {
    let mut f = OUT.get().unwrap().lock().unwrap_or_else(|e| e.into_inner());
    let mut s = String::with_capacity(line.len() + 1);
    s.push_str(line);
    s.push('\n');
    let _ = f.write_all(s.as_bytes());
}

/// crash journal: the id of the step / input about to run, overwritten in place
pub fn journal(tag: &str) {
    PROGRESS.fetch_add(1, Ordering::Relaxed);
    if let Some(f) = JOURNAL.get() {
        let mut b = [b' '; 64];
        let t = tag.as_bytes();
        let n = t.len().min(63);
        b[..n].copy_from_slice(&t[..n]);
        b[63] = b'\n';
        let _ = f.write_at(&b, 0);
    }
}

thread_local! {
    static LAST_PANIC: RefCell<Option<(String, String)>> = RefCell::new(None);
    static ST: RefCell<St> = RefCell::new(St::default());
}

#[derive(Default)]
struct St {
    log: Vec<String>,
    count: u64,
    fault_at: u64,
    fault_kind: u8,
    fault_variant: String,
    ctx: Option<Context>,
}

/// Runs `f`, converting a panic into (message, location).
pub fn catch<T>(f: impl FnOnce() -> T) -> Result<T, (String, String)> {
    LAST_PANIC.with(|p| *p.borrow_mut() = None);
    match catch_unwind(AssertUnwindSafe(f)) {
        Ok(v) => Ok(v),
        Err(payload) => {
            let from_hook = LAST_PANIC.with(|p| p.borrow_mut().take());
            let msg = if let Some(s) = payload.downcast_ref::<&str>() {
                s.to_string()
            } else if let Some(s) = payload.downcast_ref::<String>() {
                s.clone()
            } else {
                "<non-string payload>".to_string()
            };
            let loc = from_hook.map(|x| x.1).unwrap_or_default();
            Err((msg, loc))
        }
    }
}

fn panic_json(p: &(String, String)) -> String {
    format!("{{\"panic\":{},\"loc\":{}}}", q(&p.0), q(&p.1))
}

/// Fabricates an `Err` of the crate's (unnameable) error type; `variant` selects which one.
fn fab_err(variant: &str) -> EResult<Value> {
    fn conv<T>(r: EResult<T>) -> EResult<Value> {
        match r {
            Err(e) => Err(e),
            Ok(_) => Ok(Value::None),
        }
    }
    match variant {
        "ShouldBeNumber" => conv(Value::None.decimal()),
        "ShouldBeString" => conv(Value::None.string()),
        "ShouldBeList" => conv(Value::None.list()),
        "InvalidInteger" => conv(Value::None.integer()),
        "InvalidFloat" => conv(Value::None.float()),
        "ParamInvalid" => execute("min()", Context::new()),
        "DivideByZero" => execute("1/0", Context::new()),
        "FnNotRegistered" => execute("no_such_function_zz()", Context::new()),
        "NotReference" => execute("1 = 2", Context::new()),
        _ => conv(Value::None.bool()),
    }
}

fn ctx_handle(c: &Context) -> Context {
    Context { 0: c.0.clone() }
}

// ------------------------------------------------------------------------------------------------
// handler behaviours

pub struct Beh {
    id: i64,
    log: bool,
    probe: bool,
    ret: String,
    val: Value,
    reenter: J,
    /// >0: when invoked the handler bumps the logical clock and then waits (bounded spin) until the clock reaches this value, so
    /// that another thread can act in the middle of the evaluation that invoked it
    gate: u64,
}

fn beh_from(j: &J) -> Arc<Beh> {
    Arc::new(Beh {
        id: j.get("id").int(),
        log: j.get("log").bool(),
        probe: j.get("probe").bool(),
        ret: if j.get("ret").is_null() {
            "tag".to_string()
        } else {
            j.get("ret").str().to_string()
        },
        val: if j.get("v").is_null() {
            Value::None
        } else {
            ser::value_from_json(j.get("v")).unwrap_or(Value::None)
        },
        reenter: j.get("reenter").clone(),
        gate: j.get("gate").int_or(0) as u64,
    })
}

fn run_beh(b: &Beh, kind: &'static str, name: &str, args: Vec<Value>) -> EResult<Value> {
    let (n, fault) = ST.with(|st| {
        let mut st = st.borrow_mut();
        st.count += 1;
        let n = st.count;
        if b.log {
            let mut e = format!("{{\"h\":{},\"k\":\"{}\",\"n\":{},\"a\":[", b.id, kind, q(name));
            for (i, a) in args.iter().enumerate() {
                if i > 0 {
                    e.push(',');
                }
                ser::value(&mut e, a);
            }
            e.push_str("]}");
            st.log.push(e);
        }
        let f = if st.fault_at == n { st.fault_kind } else { 0 };
        (n, f)
    });
    if fault == 1 {
        let variant = ST.with(|st| st.borrow().fault_variant.clone());
        return match fab_err(&variant) {
            Err(e) => Err(e),
            Ok(_) => fab_err(""),
        };
    }
    if fault == 2 {
        panic!("vexec-injected-panic#{}", n);
    }
    if b.probe {
        let h = ST.with(|st| st.borrow().ctx.as_ref().map(ctx_handle));
        if let Some(h) = h {
            let (ok, poisoned) = match h.0.try_lock() {
                Ok(_) => (true, false),
                Err(std::sync::TryLockError::Poisoned(_)) => (true, true),
                Err(std::sync::TryLockError::WouldBlock) => (false, h.0.is_poisoned()),
            };
            ST.with(|st| {
                st.borrow_mut().log.push(format!(
                    "{{\"probe\":{{\"h\":{},\"k\":\"{}\",\"lock_ok\":{},\"poisoned\":{}}}}}",
                    b.id, kind, ok, poisoned
                ))
            });
        }
    }
    if b.gate > 0 {
        TICK.fetch_add(1, Ordering::SeqCst);
        let mut spins: u64 = 0;
        let t_wait = Instant::now();
        while TICK.load(Ordering::SeqCst) < b.gate && (spins < 400_000_000 || t_wait.elapsed() < Duration::from_secs(20)) {
            std::hint::spin_loop();
            spins += 1;
            if spins % 1024 == 0 {
                std::thread::yield_now();
            }
        }
        if TICK.load(Ordering::SeqCst) < b.gate {
            GAVE_UP.fetch_add(1, Ordering::SeqCst);
        }
    }
    if !b.reenter.is_null() {
        let r = do_reenter(&b.reenter);
        ST.with(|st| {
            st.borrow_mut().log.push(format!(
                "{{\"re\":{{\"h\":{},\"k\":\"{}\",\"act\":{},\"res\":{}}}}}",
                b.id,
                kind,
                q(b.reenter.get("act").str()),
                r
            ))
        });
    }
    Ok(match b.ret.as_str() {
        "const" => b.val.clone(),
        "last" => args
            .last()
            .cloned()
            .unwrap_or_else(|| Value::from(b.id)),
        "arg0" => args.first().cloned().unwrap_or(Value::None),
        "none" => Value::None,
        _ => {
            let mut l = vec![Value::from(b.id)];
            l.extend(args);
            Value::List(l)
        }
    })
}

fn res_json(r: &EResult<Value>) -> String {
    match r {
        Ok(v) => format!("{{\"ok\":{}}}", ser::value_s(v)),
        Err(e) => format!("{{\"err\":{}}}", q(&format!("{:?}", e))),
    }
}

/// A re-entrant engine call made from inside a handler, on the handler's own thread.
fn do_reenter(act: &J) -> String {
    let text = act.get("text").str();
    match act.get("act").str() {
        "parse" => match parse_expression(text) {
            Ok(ast) => format!("{{\"ok\":{}}}", q(&ast.expr())),
            Err(e) => format!("{{\"err\":{}}}", q(&format!("{:?}", e))),
        },
        "exec_fresh" => res_json(&execute(text, Context::new())),
        "exec_shared" => {
            // a second, separate context (one of the shared ones, by id) evaluated from inside the handler
            let c = {
                let mut g = SHARED_CTXS.get_or_init(|| Mutex::new(HashMap::new())).lock().unwrap();
                ctx_handle(g.entry(act.get("ctx").int()).or_insert_with(Context::new))
            };
            res_json(&execute(text, c))
        }
        "lock_ctx_block" => {
            // really takes the lock of the evaluating context (no try_lock first): if the engine still holds it, this thread
            // deadlocks against itself and the supervisor reports it
            let h = ST.with(|st| st.borrow().ctx.as_ref().map(ctx_handle));
            match h {
                Some(h) => {
                    let n = h.0.lock().map(|g| g.len()).unwrap_or(usize::MAX);
                    format!("{{\"ok\":[\"n\",\"{}\",0]}}", n)
                }
                None => "\"no_ctx\"".to_string(),
            }
        }
        "exec_same" | "lock_ctx" => {
            let h = ST.with(|st| st.borrow().ctx.as_ref().map(ctx_handle));
            let h = match h {
                Some(h) => h,
                None => return "\"no_ctx\"".to_string(),
            };
            // std::sync::Mutex is not re-entrant: if this thread's caller still holds the lock, the
            // real call below would self-deadlock. The probe observes that state without blocking.
            if let Err(std::sync::TryLockError::WouldBlock) = h.0.try_lock() {
                return "\"would_block\"".to_string();
            }
            if act.get("act").str() == "exec_same" {
                res_json(&execute(text, h))
            } else {
                let n = h.0.lock().map(|g| g.len()).unwrap_or(usize::MAX);
                let mut h2 = ctx_handle(&h);
                h2.set_variable("locked_by_handler", Value::from(n as i64));
                format!("{{\"ok\":[\"n\",\"{}\",0]}}", n)
            }
        }
        "reg_fn" | "reg_prefix" | "reg_postfix" | "reg_infix" => {
            do_register(act.get("act").str(), act);
            // optionally use what was just registered before the handler returns
            if !act.get("then").is_null() {
                res_json(&execute(act.get("then").str(), Context::new()))
            } else if !act.get("then_parse").is_null() {
                match parse_expression(act.get("then_parse").str()) {
                    Ok(ast) => format!("{{\"ok\":{}}}", q(&ast.expr())),
                    Err(e) => format!("{{\"err\":{}}}", q(&format!("{:?}", e))),
                }
            } else {
                "\"done\"".to_string()
            }
        }
        "set_fn" => {
            // the handler installs / replaces a function in the context it is being evaluated in, through its handle
            let h = ST.with(|st| st.borrow().ctx.as_ref().map(ctx_handle));
            match h {
                Some(mut h) => {
                    if let Err(std::sync::TryLockError::WouldBlock) = h.0.try_lock() {
                        return "\"would_block\"".to_string();
                    }
                    let beh = beh_from(act.get("beh"));
                    let n = act.get("name").str().to_string();
                    let n2 = n.clone();
                    h.set_func(&n, Arc::new(move |params| run_beh(&beh, "cfn", &n2, params)));
                    "\"done\"".to_string()
                }
                None => "\"no_ctx\"".to_string(),
            }
        }
        "lock_then_reg" => {
            let h = ST.with(|st| st.borrow().ctx.as_ref().map(ctx_handle));
            match h {
                Some(h) => {
                    if let Err(std::sync::TryLockError::WouldBlock) = h.0.try_lock() {
                        // may be held by another thread for a moment (shared context): wait for it for real
                    }
                    let g = h.0.lock();
                    do_register("reg_fn", act);
                    drop(g);
                    "\"done\"".to_string()
                }
                None => "\"no_ctx\"".to_string(),
            }
        }
        other => format!("{{\"unknown\":{}}}", q(other)),
    }
}

fn do_register(kind: &str, j: &J) {
    let name = j.get("name").str().to_string();
    let beh = beh_from(j.get("beh"));
    match kind {
        "reg_fn" => {
            let n = name.clone();
            register_function(
                &name,
                Arc::new(move |params| run_beh(&beh, "gfn", &n, params)),
            )
        }
        "reg_prefix" => {
            let n = name.clone();
            register_prefix_op(&name, Arc::new(move |v| run_beh(&beh, "prefix", &n, vec![v])))
        }
        "reg_postfix" => {
            let n = name.clone();
            register_postfix_op(&name, Arc::new(move |v| run_beh(&beh, "postfix", &n, vec![v])))
        }
        _ => {
            let n = name.clone();
            let ty = if j.get("type").str() == "SETTER" {
                InfixOpType::SETTER
            } else {
                InfixOpType::CALC
            };
            let assoc = if j.get("assoc").str() == "RIGHT" {
                InfixOpAssociativity::RIGHT
            } else {
                InfixOpAssociativity::LEFT
            };
            let kind: &'static str = if j.get("type").str() == "SETTER" {
                "setter"
            } else {
                "infix"
            };
            register_infix_op(
                &name,
                j.get("prec").int() as i32,
                ty,
                assoc,
                Arc::new(move |l, r| run_beh(&beh, kind, &n, vec![l, r])),
            )
        }
    }
}

// ------------------------------------------------------------------------------------------------
// the step interpreter

pub struct Interp {
    ctxs: HashMap<i64, Context>,
    asts: HashMap<i64, ExprAST<'static>>,
    pub lines: Option<Vec<String>>,
    /// program text is copied into this one reused buffer before every parse/exec step, the way an
    /// application reuses a line buffer: consecutive programs then live at the same address
    buf: String,
}

fn leak(s: &str) -> &'static str {
    Box::leak(s.to_string().into_boxed_str())
}

impl Interp {
    pub fn new(collect: bool) -> Self {
        Interp {
            ctxs: HashMap::new(),
            asts: HashMap::new(),
            lines: if collect { Some(Vec::new()) } else { None },
            buf: String::with_capacity(4096),
        }
    }

    fn put(&mut self, line: String) {
        match &mut self.lines {
            Some(v) => v.push(line),
            None => emit(&line),
        }
    }

    fn ctx(&mut self, id: &J) -> Context {
        if id.is_null() {
            return Context::new();
        }
        if id.int() >= 1_000_000 {
            let mut g = SHARED_CTXS.get_or_init(|| Mutex::new(HashMap::new())).lock().unwrap();
            return ctx_handle(g.entry(id.int()).or_insert_with(Context::new));
        }
        // both documented ways of making an empty context are used: Context::new() and the create_context! macro
        let c = self.ctxs.entry(id.int()).or_insert_with(|| if id.int() % 2 == 0 { Context::new() } else { expression_engine::create_context!() });
        ctx_handle(c)
    }

    fn snapshot(c: &Context, out: &mut String) {
        let poisoned = c.0.is_poisoned();
        let mut keys: Vec<String> = match c.0.lock() {
            Ok(g) => g.keys().cloned().collect(),
            Err(p) => p.into_inner().keys().cloned().collect(),
        };
        keys.sort();
        let r = catch(|| {
            let mut s = String::from("{");
            for (i, k) in keys.iter().enumerate() {
                if i > 0 {
                    s.push(',');
                }
                s.push_str(&q(k));
                s.push(':');
                match c.get_variable(k) {
                    Some(v) => ser::value(&mut s, &v),
                    None => s.push_str(if c.get_func(k).is_some() {
                        "\"<fn>\""
                    } else {
                        "\"<gone>\""
                    }),
                }
            }
            s.push('}');
            s
        });
        let _ = write!(out, ",\"poisoned\":{}", poisoned);
        match r {
            Ok(s) => {
                let _ = write!(out, ",\"snap\":{}", s);
            }
            Err(p) => {
                let _ = write!(out, ",\"snap_panic\":{}", panic_json(&p));
            }
        }
    }

    fn render(ast: &ExprAST, input: &str, want: &str, out: &mut String) {
        if want.contains('a') {
            let r = catch(|| {
                let mut s = ser::AstSer::new(input);
                s.ast(ast);
                s
            });
            match r {
                Ok(s) => {
                    let _ = write!(out, ",\"ast\":{}", s.out);
                    if want.contains('s') {
                        let _ = write!(out, ",\"slices\":{}", s.slices_json());
                    }
                }
                Err(p) => {
                    let _ = write!(out, ",\"ast_panic\":{}", panic_json(&p));
                }
            }
        }
        if want.contains('e') {
            match catch(|| ast.expr()) {
                Ok(e) => {
                    let _ = write!(out, ",\"expr\":{}", q(&e));
                    if want.contains('r') {
                        // round trip: the rendered text must re-parse to an equal tree
                        match catch(|| match parse_expression(&e) {
                            Ok(t2) => {
                                let mut s2 = ser::AstSer::new(&e);
                                s2.ast(&t2);
                                let e2 = t2.expr();
                                format!(
                                    "{{\"eq\":{},\"ast\":{},\"expr\":{}}}",
                                    t2 == *ast,
                                    s2.out,
                                    q(&e2)
                                )
                            }
                            Err(er) => format!("{{\"err\":{}}}", q(&format!("{:?}", er))),
                        }) {
                            Ok(s) => {
                                let _ = write!(out, ",\"rt\":{}", s);
                            }
                            Err(p) => {
                                let _ = write!(out, ",\"rt\":{}", panic_json(&p));
                            }
                        }
                    }
                }
                Err(p) => {
                    let _ = write!(out, ",\"expr_panic\":{}", panic_json(&p));
                }
            }
        }
        if want.contains('d') {
            match catch(|| ast.describe()) {
                Ok(e) => {
                    let _ = write!(out, ",\"desc\":{}", q(&e));
                }
                Err(p) => {
                    let _ = write!(out, ",\"desc_panic\":{}", panic_json(&p));
                }
            }
        }
    }

    fn begin_exec(j: &J, c: &Context) {
        ST.with(|st| {
            let mut st = st.borrow_mut();
            st.log.clear();
            st.count = 0;
            st.fault_at = j.get("fault").get("k").int() as u64;
            st.fault_kind = match j.get("fault").get("kind").str() {
                "err" => 1,
                "panic" => 2,
                _ => 0,
            };
            st.fault_variant = j.get("fault").get("variant").str().to_string();
            st.ctx = Some(ctx_handle(c));
        });
    }

    fn end_exec(out: &mut String) {
        ST.with(|st| {
            let mut st = st.borrow_mut();
            st.ctx = None;
            st.fault_at = 0;
            let _ = write!(out, ",\"ncalls\":{},\"log\":[{}]", st.count, st.log.join(","));
            st.log.clear();
        });
    }

    fn exec_res(r: Result<EResult<Value>, (String, String)>, out: &mut String) {
        match r {
            Ok(r) => {
                let _ = write!(out, ",\"res\":{}", res_json(&r));
            }
            Err(p) => {
                let _ = write!(out, ",\"res\":{}", panic_json(&p));
            }
        }
    }

    pub fn step(&mut self, idx: usize, j: &J) {
        let op = j.get("op").str();
        journal(&format!("{}", idx));
        let t0 = now_ns();
        let mut out = format!("{{\"i\":{},\"op\":{}", idx, q(op));
        if j.has("tag") {
            let _ = write!(out, ",\"tag\":{}", q(j.get("tag").str()));
        }
        match op {
            "ctx" => {
                let mut c = self.ctx(j.get("id"));
                if let Some(m) = j.get("vars").obj() {
                    for (k, v) in m {
                        match ser::value_from_json(v) {
                            Ok(v) => c.set_variable(k, v),
                            Err(e) => {
                                let _ = write!(out, ",\"harness_error\":{}", q(&e));
                            }
                        }
                    }
                }
                if let Some(m) = j.get("fns").obj() {
                    for (k, b) in m {
                        let beh = beh_from(b);
                        let n = k.clone();
                        c.set_func(k, Arc::new(move |params| run_beh(&beh, "cfn", &n, params)));
                    }
                }
            }
            "parse" => {
                let mut buf = std::mem::take(&mut self.buf);
                buf.clear();
                buf.push_str(j.get("text").str());
                let text: &str = &buf;
                let want = j.get("want").str();
                match catch(|| parse_expression(text)) {
                    Ok(Ok(ast)) => {
                        out.push_str(",\"p\":\"ok\"");
                        Self::render(&ast, text, want, &mut out);
                        if j.has("keep") {
                            let t = leak(text);
                            if let Ok(a) = parse_expression(t) {
                                self.asts.insert(j.get("keep").int(), a);
                            }
                        }
                    }
                    Ok(Err(e)) => {
                        let _ = write!(out, ",\"p\":\"err\",\"perr\":{}", q(&format!("{:?}", e)));
                    }
                    Err(p) => {
                        let _ = write!(out, ",\"p\":\"panic\",\"ppanic\":{}", panic_json(&p));
                    }
                }
                self.buf = buf;
            }
            "exec" => {
                let mut buf = std::mem::take(&mut self.buf);
                buf.clear();
                buf.push_str(j.get("text").str());
                let text: &str = &buf;
                let want = j.get("want").str();
                let c = self.ctx(j.get("ctx"));
                Self::begin_exec(j, &c);
                if j.get("via").str() == "execute" {
                    let h = ctx_handle(&c);
                    let r = catch(|| execute(text, h));
                    Self::exec_res(r, &mut out);
                } else {
                    match catch(|| parse_expression(text)) {
                        Ok(Ok(ast)) => {
                            out.push_str(",\"p\":\"ok\"");
                            Self::render(&ast, text, want, &mut out);
                            let mut h = ctx_handle(&c);
                            let r = catch(|| ast.exec(&mut h));
                            Self::exec_res(r, &mut out);
                        }
                        Ok(Err(e)) => {
                            let _ =
                                write!(out, ",\"p\":\"err\",\"perr\":{}", q(&format!("{:?}", e)));
                        }
                        Err(p) => {
                            let _ = write!(out, ",\"p\":\"panic\",\"ppanic\":{}", panic_json(&p));
                        }
                    }
                }
                Self::end_exec(&mut out);
                if !j.get("ctx").is_null() && !j.get("nosnap").bool() {
                    Self::snapshot(&c, &mut out);
                }
                self.buf = buf;
            }
            "exec_ast" => {
                let c = self.ctx(j.get("ctx"));
                Self::begin_exec(j, &c);
                match self.asts.get(&j.get("h").int()) {
                    Some(ast) => {
                        let mut h = ctx_handle(&c);
                        let r = catch(|| ast.exec(&mut h));
                        Self::exec_res(r, &mut out);
                        if j.get("want").str().contains('e') {
                            if let Ok(e) = catch(|| ast.expr()) {
                                let _ = write!(out, ",\"expr\":{}", q(&e));
                            }
                        }
                    }
                    None => out.push_str(",\"res\":\"no_such_ast\""),
                }
                Self::end_exec(&mut out);
                if !j.get("ctx").is_null() {
                    Self::snapshot(&c, &mut out);
                }
            }
            "snapshot" => {
                let c = self.ctx(j.get("ctx"));
                Self::snapshot(&c, &mut out);
            }
            "selfctx" => {
                // A context of which the host keeps the ONLY strong handle: its functions capture a Weak of the public
                // field, upgrade it when called and really lock it (blocking). If the engine still holds that lock the
                // thread deadlocks against itself and the supervisor reports it.
                let mut c = if j.get("macro").bool() { expression_engine::create_context!() } else { Context::new() };
                if let Some(m) = j.get("vars").obj() {
                    for (k, v) in m {
                        if let Ok(v) = ser::value_from_json(v) {
                            c.set_variable(k, v);
                        }
                    }
                }
                if let Some(m) = j.get("wfns").obj() {
                    for (k, spec) in m {
                        let w = Arc::downgrade(&c.0);
                        let act = spec.get("act").str().to_string();
                        let a = spec.get("a").str().to_string();
                        let b = spec.get("b").str().to_string();
                        let val = ser::value_from_json(spec.get("val")).unwrap_or(Value::None);
                        let ret = spec.get("ret").str().to_string();
                        let retval = ser::value_from_json(spec.get("retval")).unwrap_or(Value::None);
                        let name = k.clone();
                        c.set_func(k, Arc::new(move |params: Vec<Value>| {
                            ST.with(|st| st.borrow_mut().log.push(format!("{{\"wfn\":{}}}", q(&name))));
                            if let Some(h) = w.upgrade() {
                                match act.as_str() {
                                    "copy" => {
                                        let mut g = h.lock().unwrap();
                                        if let Some(v) = g.get(&a).cloned() {
                                            g.insert(b.clone(), v);
                                        }
                                    }
                                    "remove" => {
                                        h.lock().unwrap().remove(&a);
                                    }
                                    "set" => {
                                        drop(h.lock().unwrap());
                                        Context { 0: h.clone() }.set_variable(&a, val.clone());
                                    }
                                    _ => {
                                        drop(h.lock().unwrap());
                                    }
                                }
                            }
                            Ok(match ret.as_str() {
                                "arg0" => params.first().cloned().unwrap_or(Value::None),
                                _ => retval.clone(),
                            })
                        }));
                    }
                }
                let text = leak(j.get("text").str());
                ST.with(|st| st.borrow_mut().log.clear());
                if j.get("via").str() == "execute" {
                    let r = catch(|| execute(text, c));
                    Self::exec_res(r, &mut out);
                } else {
                    match catch(|| parse_expression(text)) {
                        Ok(Ok(ast)) => {
                            let r = catch(|| ast.exec(&mut c));
                            Self::exec_res(r, &mut out);
                            Self::snapshot(&c, &mut out);
                        }
                        Ok(Err(e)) => {
                            let _ = write!(out, ",\"p\":\"err\",\"perr\":{}", q(&format!("{:?}", e)));
                        }
                        Err(p) => {
                            let _ = write!(out, ",\"p\":\"panic\",\"ppanic\":{}", panic_json(&p));
                        }
                    }
                }
                let log = ST.with(|st| std::mem::take(&mut st.borrow_mut().log));
                let _ = write!(out, ",\"log\":[{}]", log.join(","));
            }
            "reg_fn" | "reg_prefix" | "reg_postfix" | "reg_infix" => {
                if let Err(p) = catch(|| do_register(op, j)) {
                    let _ = write!(out, ",\"reg_panic\":{}", panic_json(&p));
                }
            }
            "tokenize" => {
                let text = j.get("text").str();
                match catch(|| expression_engine::verif_hooks::tokenize(text)) {
                    Ok(Ok(toks)) => {
                        out.push_str(",\"toks\":");
                        enumerate::toks_json(&toks, &mut out);
                        let v = enumerate::tiling_violation(text, &toks);
                        if let Some(v) = v {
                            let _ = write!(out, ",\"tile\":{}", q(&v));
                        }
                    }
                    Ok(Err(e)) => {
                        let _ = write!(out, ",\"terr\":{}", q(&format!("{:?}", e)));
                    }
                    Err(p) => {
                        let _ = write!(out, ",\"tpanic\":{}", panic_json(&p));
                    }
                }
            }
            "desc" => {
                if let Err(p) = catch(|| set_descriptor(j)) {
                    let _ = write!(out, ",\"desc_panic\":{}", panic_json(&p));
                }
            }
            "conv" => conv(j, &mut out),
            "access" => access(j, &mut out),
            "threads" => self.threads(j, &mut out),
            "init_race" => init_race(j, &mut out),
            "enum" => enumerate::run(j, &mut out),
            "sleep_ms" => std::thread::sleep(Duration::from_millis(j.get("ms").int() as u64)),
            "hammer" => {
                // dense evaluation of one program in a tight loop; only outcome *changes* are recorded, each
                // segment with the call time of its first and last evaluation and the return time of the last
                if j.get("tick").bool() {
                    TICK.fetch_add(1, Ordering::SeqCst);
                }
                let text = j.get("text").str();
                let n = j.get("n").int();
                let hc = if j.get("ctx").is_null() { None } else { Some(self.ctx(j.get("ctx"))) };
                let mut segs: Vec<(String, u64, u64, u64, u64)> = Vec::new();
                for _ in 0..n {
                    let a = now_ns();
                    let cx = match &hc {
                        Some(c) => ctx_handle(c),
                        None => Context::new(),
                    };
                    if let Some(c) = &hc {
                        ST.with(|st| st.borrow_mut().ctx = Some(ctx_handle(c)));
                    }
                    let r = catch(|| execute(text, cx));
                    let b = now_ns();
                    let key = match r {
                        Ok(r) => res_json(&r),
                        Err(p) => panic_json(&p),
                    };
                    match segs.last_mut() {
                        Some(last) if last.0 == key => {
                            last.2 = a;
                            last.3 = b;
                            last.4 += 1;
                        }
                        _ => segs.push((key, a, a, b, 1)),
                    }
                }
                out.push_str(",\"segs\":[");
                for (i, sg) in segs.iter().enumerate() {
                    if i > 0 {
                        out.push(',');
                    }
                    let _ = write!(out, "{{\"res\":{},\"first_t0\":{},\"last_t0\":{},\"last_t1\":{},\"count\":{}}}", sg.0, sg.1, sg.2, sg.3, sg.4);
                }
                out.push(']');
            }
            "tick" => {
                TICK.fetch_add(1, Ordering::SeqCst);
            }
            "meet" => {
                // spin rendezvous of n threads at meeting point k: they leave within a few nanoseconds of each other
                let k = (j.get("k").int() as usize) % 4096;
                let n = j.get("n").int() as u64;
                MEET[k].fetch_add(1, Ordering::SeqCst);
                let mut spins: u64 = 0;
                while MEET[k].load(Ordering::SeqCst) < n && spins < 2_000_000_000 {
                    std::hint::spin_loop();
                    spins += 1;
                    if spins % 4096 == 0 {
                        std::thread::yield_now();
                    }
                }
                if MEET[k].load(Ordering::SeqCst) < n {
                    // the rendezvous never completed (machine overloaded?): the scenario's ordering assumptions are void
                    GAVE_UP.fetch_add(1, Ordering::SeqCst);
                    out.push_str(",\"gave_up\":true");
                }
            }
            "wait_tick" => {
                // bounded spin on the logical clock: lets a registration land while other threads are in
                // the middle of a block of evaluations; gives up after a generous number of yields
                let n = j.get("n").int() as u64;
                let mut spins: u64 = 0;
                let t_wait = Instant::now();
                while TICK.load(Ordering::SeqCst) < n && (spins < 200_000_000 || t_wait.elapsed() < Duration::from_secs(20)) {
                    std::hint::spin_loop();
                    spins += 1;
                    if spins % 1024 == 0 {
                        std::thread::yield_now();
                    }
                }
                if TICK.load(Ordering::SeqCst) < n {
                    // gave up: the ordering this scenario relies on was NOT established; the judge must discard the run
                    GAVE_UP.fetch_add(1, Ordering::SeqCst);
                    out.push_str(",\"gave_up\":true");
                }
            }
            other => {
                let _ = write!(out, ",\"harness_error\":{}", q(&format!("unknown op {}", other)));
            }
        }
        let _ = write!(out, ",\"t0\":{},\"t1\":{}}}", t0, now_ns());
        self.put(out);
    }

    fn threads(&mut self, j: &J, out: &mut String) {
        let plans = j.get("plans").arr();
        let n = plans.len();
        let barrier = Arc::new(Barrier::new(n));
        let mut hs = Vec::new();
        for (ti, plan) in plans.iter().enumerate() {
            let plan: Vec<J> = plan.arr().to_vec();
            let barrier = barrier.clone();
            let jitter = j.get("jitter_ns").arr().get(ti).map(|x| x.int()).unwrap_or(0) as u64;
            let b = std::thread::Builder::new()
                .name(format!("w{}", ti))
                .stack_size(8 << 20);
            hs.push(
                b.spawn(move || {
                    let mut it = Interp::new(true);
                    barrier.wait();
                    let t = Instant::now();
                    while (t.elapsed().as_nanos() as u64) < jitter {
                        std::hint::spin_loop();
                    }
                    for (si, s) in plan.iter().enumerate() {
                        it.step(si, s);
                    }
                    it.lines.take().unwrap()
                })
                .unwrap(),
            );
        }
        out.push_str(",\"threads\":[");
        for (i, h) in hs.into_iter().enumerate() {
            if i > 0 {
                out.push(',');
            }
            match h.join() {
                Ok(lines) => {
                    let _ = write!(out, "[{}]", lines.join(","));
                }
                Err(_) => out.push_str("\"thread_panicked\""),
            }
        }
        out.push(']');
    }
}

// ------------------------------------------------------------------------------------------------
// C18: marker descriptors

fn set_descriptor(j: &J) {
    use expression_engine::verif_hooks::DescriptorManager;
    let id = j.get("id").int();
    let name = j.get("name").str().to_string();
    let mut m = DescriptorManager::new();
    if id == 0 {
        // a descriptor that hides its node: renders as the empty string
        match j.get("kind").str() {
            "REFERENCE" => m.set_reference_descriptor(name, Arc::new(|_| String::new())),
            "FUNCTION" => m.set_function_descriptor(name, Arc::new(|_, _| String::new())),
            _ => {}
        }
        return;
    }
    match j.get("kind").str() {
        "UNARY" => m.set_unary_descriptor(
            name,
            Arc::new(move |op, rhs| format!("<U{}|{}|{}>", id, op, rhs)),
        ),
        "BINARY" => m.set_binary_descriptor(
            name,
            Arc::new(move |op, l, r| format!("<B{}|{}|{}|{}>", id, op, l, r)),
        ),
        "POSTFIX" => m.set_postfix_descriptor(
            name,
            Arc::new(move |l, op| format!("<P{}|{}|{}>", id, l, op)),
        ),
        "TERNARY" => m.set_ternary_descriptor(Arc::new(move |c, l, r| {
            format!("<T{}|{}|{}|{}>", id, c, l, r)
        })),
        "FUNCTION" => m.set_function_descriptor(
            name,
            Arc::new(move |n, args| format!("<F{}|{}|{}>", id, n, args.join("#"))),
        ),
        "REFERENCE" => {
            m.set_reference_descriptor(name, Arc::new(move |n| format!("<R{}|{}>", id, n)))
        }
        "LIST" => m.set_list_descriptor(Arc::new(move |items| {
            format!("<L{}|{}>", id, items.join("#"))
        })),
        "MAP" => m.set_map_descriptor(Arc::new(move |items| {
            let v: Vec<String> = items.into_iter().map(|(k, v)| format!("{}~{}", k, v)).collect();
            format!("<M{}|{}>", id, v.join("#"))
        })),
        "CHAIN" => m.set_chain_descriptor(Arc::new(move |items| {
            format!("<C{}|{}>", id, items.join("#"))
        })),
        _ => {}
    }
}

// ------------------------------------------------------------------------------------------------
// C17: conversions and accessors

fn conv(j: &J, out: &mut String) {
    let ty = j.get("ty").str();
    let x = j.get("x").str();
    macro_rules! int {
        ($t:ty) => {{
            match x.parse::<$t>() {
                Ok(n) => {
                    let _ = write!(out, ",\"rust_display\":{}", q(&n.to_string()));
                    catch(|| Value::from(n))
                }
                Err(_) => {
                    out.push_str(",\"harness_error\":\"payload does not parse\"");
                    return;
                }
            }
        }};
    }
    let r = match ty {
        "i8" => int!(i8),
        "i16" => int!(i16),
        "i32" => int!(i32),
        "i64" => int!(i64),
        "i128" => int!(i128),
        "u8" => int!(u8),
        "u16" => int!(u16),
        "u32" => int!(u32),
        "u64" => int!(u64),
        "u128" => int!(u128),
        "f64" => {
            let bits = u64::from_str_radix(x, 16).unwrap_or(0);
            catch(|| Value::from(f64::from_bits(bits)))
        }
        "f32" => {
            let bits = u32::from_str_radix(x, 16).unwrap_or(0);
            catch(|| Value::from(f32::from_bits(bits)))
        }
        "dec" | "str" | "bool" | "list" => {
            let v = match ser::value_from_json(j.get("v")) {
                Ok(v) => v,
                Err(e) => {
                    let _ = write!(out, ",\"harness_error\":{}", q(&e));
                    return;
                }
            };
            catch(|| match v {
                Value::Number(d) => Value::from(d),
                Value::String(s) => {
                    if j.get("as_str").bool() {
                        Value::from(s.as_str())
                    } else {
                        Value::from(s)
                    }
                }
                Value::Bool(b) => Value::from(b),
                Value::List(l) => Value::from(l),
                other => other,
            })
        }
        _ => {
            out.push_str(",\"harness_error\":\"unknown ty\"");
            return;
        }
    };
    match r {
        Ok(v) => {
            let _ = write!(out, ",\"val\":{}", ser::value_s(&v));
            accessors(&v, out);
        }
        Err(p) => {
            let _ = write!(out, ",\"conv_panic\":{}", panic_json(&p));
        }
    }
}

fn access(j: &J, out: &mut String) {
    match ser::value_from_json(j.get("v")) {
        Ok(v) => accessors(&v, out),
        Err(e) => {
            let _ = write!(out, ",\"harness_error\":{}", q(&e));
        }
    }
}

fn accessors(v: &Value, out: &mut String) {
    fn put<T>(
        out: &mut String,
        name: &str,
        r: Result<EResult<T>, (String, String)>,
        f: impl Fn(&T) -> String,
    ) {
        match r {
            Ok(Ok(x)) => {
                let _ = write!(out, "{}:{{\"ok\":{}}}", q(name), f(&x));
            }
            Ok(Err(e)) => {
                let _ = write!(out, "{}:{{\"err\":{}}}", q(name), q(&format!("{:?}", e)));
            }
            Err(p) => {
                let _ = write!(out, "{}:{}", q(name), panic_json(&p));
            }
        }
    }
    out.push_str(",\"acc\":{");
    put(out, "string", catch(|| v.clone().string()), |s| q(s));
    out.push(',');
    put(out, "bool", catch(|| v.clone().bool()), |b| b.to_string());
    out.push(',');
    put(out, "decimal", catch(|| v.clone().decimal()), |d| {
        let mut s = String::new();
        ser::dec(&mut s, d);
        s
    });
    out.push(',');
    put(out, "integer", catch(|| v.clone().integer()), |i| q(&i.to_string()));
    out.push(',');
    put(out, "float", catch(|| v.clone().float()), |f| q(&format!("{:016x}", f.to_bits())));
    out.push(',');
    put(out, "list", catch(|| v.clone().list()), |l| {
        ser::value_s(&Value::List(l.clone()))
    });
    out.push('}');
}

// ------------------------------------------------------------------------------------------------
// C13: forced interleaving at the initialisation boundary

static RACE_STAGE: AtomicI64 = AtomicI64::new(-1);
static RACE_WAIT_MS: AtomicU64 = AtomicU64::new(0);
static RACE_NB: AtomicU64 = AtomicU64::new(0);
static PROBE_MASK: AtomicU64 = AtomicU64::new(0);
static PROBE_T: [AtomicU64; 2] = [AtomicU64::new(0), AtomicU64::new(0)];
static GO: (Mutex<bool>, Condvar) = (Mutex::new(false), Condvar::new());
static DONE: (Mutex<u64>, Condvar) = (Mutex::new(0), Condvar::new());

fn race_probe(stage: u8) {
    PROBE_MASK.fetch_or(1 << stage, Ordering::SeqCst);
    if stage as i64 != RACE_STAGE.load(Ordering::SeqCst) {
        return;
    }
    PROBE_T[0].store(now_ns(), Ordering::SeqCst);
    {
        let mut g = GO.0.lock().unwrap();
        *g = true;
        GO.1.notify_all();
    }
    // hold the initialising thread here while the other threads make their first calls; correct
    // code keeps them blocked until we return, so this wait normally runs to its (timed) end
    let nb = RACE_NB.load(Ordering::SeqCst);
    let deadline = Duration::from_millis(RACE_WAIT_MS.load(Ordering::SeqCst));
    let t = Instant::now();
    let mut d = DONE.0.lock().unwrap();
    while *d < nb && t.elapsed() < deadline {
        let (g, _) = DONE.1.wait_timeout(d, deadline.saturating_sub(t.elapsed())).unwrap();
        d = g;
    }
    drop(d);
    PROBE_T[1].store(now_ns(), Ordering::SeqCst);
}

fn init_race(j: &J, out: &mut String) {
    RACE_STAGE.store(j.get("stage").int(), Ordering::SeqCst);
    RACE_WAIT_MS.store(j.get("wait_ms").int_or(150) as u64, Ordering::SeqCst);
    let bs: Vec<J> = j.get("bs").arr().to_vec();
    RACE_NB.store(bs.len() as u64, Ordering::SeqCst);
    expression_engine::verif_hooks::set_init_probe(Some(race_probe));
    let a_plan: Vec<J> = j.get("a").arr().to_vec();
    let ha = std::thread::Builder::new()
        .name("A".into())
        .stack_size(8 << 20)
        .spawn(move || {
            let mut it = Interp::new(true);
            for (si, s) in a_plan.iter().enumerate() {
                it.step(si, s);
            }
            // if A's call never reached the probe stage, release the others anyway
            let mut g = GO.0.lock().unwrap();
            *g = true;
            GO.1.notify_all();
            drop(g);
            it.lines.take().unwrap()
        })
        .unwrap();
    let mut hbs = Vec::new();
    for (bi, plan) in bs.into_iter().enumerate() {
        let plan: Vec<J> = plan.arr().to_vec();
        hbs.push(
            std::thread::Builder::new()
                .name(format!("B{}", bi))
                .stack_size(8 << 20)
                .spawn(move || {
                    {
                        let mut g = GO.0.lock().unwrap();
                        let t = Instant::now();
                        while !*g && t.elapsed() < Duration::from_secs(20) {
                            let (g2, _) = GO.1.wait_timeout(g, Duration::from_millis(50)).unwrap();
                            g = g2;
                        }
                    }
                    let mut it = Interp::new(true);
                    for (si, s) in plan.iter().enumerate() {
                        it.step(si, s);
                        if si == 0 {
                            // first call returned: tell the probe
                            let mut d = DONE.0.lock().unwrap();
                            *d += 1;
                            DONE.1.notify_all();
                        }
                    }
                    (it.lines.take().unwrap(), now_ns())
                })
                .unwrap(),
        );
    }
    let la = ha.join();
    out.push_str(",\"a\":");
    match la {
        Ok(l) => {
            let _ = write!(out, "[{}]", l.join(","));
        }
        Err(_) => out.push_str("\"thread_panicked\""),
    }
    out.push_str(",\"bs\":[");
    for (i, h) in hbs.into_iter().enumerate() {
        if i > 0 {
            out.push(',');
        }
        match h.join() {
            Ok((l, _)) => {
                let _ = write!(out, "[{}]", l.join(","));
            }
            Err(_) => out.push_str("\"thread_panicked\""),
        }
    }
    expression_engine::verif_hooks::set_init_probe(None);
    let _ = write!(
        out,
        "],\"probe_mask\":{},\"probe_t0\":{},\"probe_t1\":{}",
        PROBE_MASK.load(Ordering::SeqCst),
        PROBE_T[0].load(Ordering::SeqCst),
        PROBE_T[1].load(Ordering::SeqCst)
    );
}

// ------------------------------------------------------------------------------------------------

fn main() {
    let args: Vec<String> = std::env::args().collect();
    if args.len() < 3 {
        eprintln!("usage: vexec <scenario.jsonl> <out.jsonl> [stack_mb]");
        std::process::exit(2);
    }
    START.get_or_init(Instant::now);
    let scenario = match std::fs::read_to_string(&args[1]) {
        Ok(s) => s,
        Err(e) => {
            eprintln!("cannot read scenario: {}", e);
            std::process::exit(2);
        }
    };
    let out = File::create(&args[2]).expect("cannot create output");
    let _ = OUT.set(Mutex::new(out));
    if !cfg!(miri) {
        if let Ok(f) = File::create(format!("{}.journal", &args[2])) {
            let _ = JOURNAL.set(f);
        }
    }
    let stack_mb: usize = args.get(3).and_then(|s| s.parse().ok()).unwrap_or(8);
    std::panic::set_hook(Box::new(|info| {
        let loc = info
            .location()
            .map(|l| format!("{}:{}", l.file(), l.line()))
            .unwrap_or_default();
        LAST_PANIC.with(|p| *p.borrow_mut() = Some((String::new(), loc)));
    }));
    let mut steps = Vec::new();
    for (ln, line) in scenario.lines().enumerate() {
        if line.trim().is_empty() {
            continue;
        }
        match json::parse(line) {
            Ok(j) => steps.push(j),
            Err(e) => {
                eprintln!("scenario line {}: {}", ln + 1, e);
                std::process::exit(2);
            }
        }
    }
    let cpu_budget_s = steps
        .first()
        .map(|s| s.get("cpu_budget_s").int_or(10))
        .unwrap_or(10) as u64;
    let worker = std::thread::Builder::new()
        .name("interp".into())
        .stack_size(stack_mb << 20)
        .spawn(move || {
            let mut it = Interp::new(false);
            for (i, s) in steps.iter().enumerate() {
                it.step(i, s);
            }
            emit(&format!("{{\"end\":true,\"gave_up\":{}}}", GAVE_UP.load(Ordering::SeqCst)));
        })
        .unwrap();
    let code = watchdog::supervise(worker, cpu_budget_s);
    std::process::exit(code);
}
