"""Driver infrastructure: building vexec, running scenario shards, verdicts, known findings, evidence."""
import fcntl
import hashlib
import json
import multiprocessing
import os
import random
import re
import shutil
import signal
import subprocess
import sys
import time

VERIF = os.path.dirname(os.path.dirname(os.path.abspath(__file__)))
REPO = "/repo"
HARNESS = os.path.join(VERIF, "harness")
TARGET = os.path.join(VERIF, "target")
WORK = os.path.join(VERIF, "work")
NCPU = min(16, os.cpu_count() or 4)

ENV = dict(os.environ, CARGO_NET_OFFLINE="true", CARGO_TARGET_DIR=TARGET, CARGO_TERM_COLOR="never")
ENV.pop("RUSTFLAGS", None)


class HarnessError(Exception):
    """The machinery itself failed (exit 2): never reported as a violation."""


def seed():
    try:
        return int(os.environ.get("VERIF_SEED", "1"))
    except ValueError:
        return 1


def rng(*parts):
    return random.Random("/".join(str(p) for p in (seed(),) + parts))


# ------------------------------------------------------------------------------------------------
# builds


def _locked(path):
    os.makedirs(os.path.dirname(path), exist_ok=True)
    f = open(path, "w")
    fcntl.flock(f, fcntl.LOCK_EX)
    return f


def sync_lock():
    """keep the harness lock file equal to the repository's (same dependency versions, offline)"""
    src = os.path.join(REPO, "Cargo.lock")
    dst = os.path.join(HARNESS, "Cargo.lock")
    if not os.path.exists(dst) and os.path.exists(src):
        shutil.copy(src, dst)


_built = {}


def build(profile="verifdbg"):
    """Builds vexec against /repo's current working tree; returns the binary path."""
    if profile in _built:
        return _built[profile]
    sync_lock()
    lock = _locked(os.path.join(TARGET, ".verif-build.lock"))
    try:
        cmd = ["cargo", "build", "--offline", "--profile", profile, "--manifest-path", os.path.join(HARNESS, "Cargo.toml")]
        r = subprocess.run(cmd, env=ENV, stdout=subprocess.PIPE, stderr=subprocess.STDOUT, text=True)
        if r.returncode != 0:
            sys.stderr.write(r.stdout[-6000:])
            raise HarnessError("cargo build (%s) failed" % profile)
    finally:
        lock.close()
    d = "release" if profile == "release" else profile
    path = os.path.join(TARGET, d, "vexec")
    if not os.path.exists(path):
        raise HarnessError("vexec binary missing: " + path)
    _built[profile] = path
    return path


# ------------------------------------------------------------------------------------------------
# running scenarios


class Run:
    """Result of one vexec process."""

    def __init__(self, records, code, sig, journal, wall, timed_out, path):
        self.records = records
        self.code = code
        self.sig = sig
        self.journal = journal
        self.wall = wall
        self.timed_out = timed_out
        self.path = path
        self.ended = any("end" in r for r in records[-2:]) if records else False
        # logical-clock waits / rendezvous that timed out inside the executor (overloaded machine): ordering assumptions of the
        # scenario are void, so callers that rely on ticks must treat the run as inconclusive
        self.gave_up = sum(r.get("gave_up", 0) for r in records[-2:] if "end" in r) if records else 0

    def steps(self):
        return [r for r in self.records if "i" in r]

    def by_index(self):
        return {r["i"]: r for r in self.records if "i" in r}


def workdir(prop, sub=""):
    d = os.path.join(WORK, prop, sub) if sub else os.path.join(WORK, prop)
    os.makedirs(d, exist_ok=True)
    return d


def run_vexec(steps, wd, name, profile="verifdbg", stack_mb=8, timeout=300, binary=None, wrapper=None, env=None, keep=False):
    """Writes the scenario, runs it, parses the record log. Never raises on a crashing executor: the
    exit status / signal and the crash journal are returned for the caller's verdict."""
    tool = os.environ.get("VERIF_TOOL")
    if tool and binary is None and wrapper is None:
        # thorough tier: the same scenario under a sanitizer / interpreter; findings go to a report file
        run, reports = run_under(tool, steps, wd, name + "." + tool, timeout=max(timeout, 1800), stack_mb=stack_mb)
        rdir = os.path.join(WORK, "tool-reports", tool)
        os.makedirs(rdir, exist_ok=True)
        if run is None:
            with open(os.path.join(rdir, "unavailable.txt"), "a") as f:
                f.write("%s\n" % reports)
            run = Run([], None, None, None, 0.0, False, "")
            run.stderr = ""
            return run
        with open(os.path.join(rdir, "runs.txt"), "a") as f:
            f.write("%s %d\n" % (name, len(run.records)))
        for i, rp in enumerate(reports):
            with open(os.path.join(rdir, "%s.%d.report.txt" % (name, i)), "w") as f:
                f.write(json.dumps({"scenario": run.path, "report": rp}))
        return run
    exe = binary or build(profile)
    sp = os.path.join(wd, name + ".scn.jsonl")
    op = os.path.join(wd, name + ".out.jsonl")
    with open(sp, "w") as f:
        for s in steps:
            f.write(json.dumps(s, ensure_ascii=False))
            f.write("\n")
    cmd = (wrapper or []) + [exe, sp, op, str(stack_mb)]
    t0 = time.time()
    timed_out = False
    try:
        pr = subprocess.run(cmd, stdout=subprocess.PIPE, stderr=subprocess.PIPE, timeout=timeout, env=env or ENV)
        rc = pr.returncode
    except subprocess.TimeoutExpired:
        timed_out = True
        rc = None
    wall = time.time() - t0
    records = []
    if os.path.exists(op):
        with open(op, encoding="utf-8", errors="replace") as f:
            for line in f:
                line = line.strip()
                if not line:
                    continue
                try:
                    records.append(json.loads(line))
                except (ValueError, RecursionError):
                    # e.g. a result value nested thousands of levels deep: keep what a flat scan can tell
                    m = re.match(r'\{"i":(\d+),"op":"(\w+)"', line)
                    rec = {"unparsable": line[:200], "too_deep": True}
                    if m:
                        rec["i"] = int(m.group(1))
                        rec["op"] = m.group(2)
                    mp = re.search(r'"p":"(\w+)"', line[:400])
                    if mp:
                        rec["p"] = mp.group(1)
                    if '"panic":' in line:
                        rec["res"] = {"panic": "see raw record", "loc": ""}
                    records.append(rec)
    journal = None
    jp = op + ".journal"
    if os.path.exists(jp):
        try:
            journal = open(jp).read().strip()
        except OSError:
            journal = None
    code = rc if rc is not None and rc >= 0 else None
    sig = -rc if rc is not None and rc < 0 else None
    run = Run(records, code, sig, journal, wall, timed_out, sp)
    run.stderr = pr.stderr.decode("utf-8", "replace")[-4000:] if not timed_out else ""
    if not keep:
        for pth in (op, jp):
            try:
                os.remove(pth)
            except OSError:
                pass
    return run


def pmap(func, items, procs=None):
    """Parallel map over shards (generation + execution + checking happen inside the workers)."""
    items = list(items)
    if not items:
        return []
    procs = min(procs or NCPU, len(items))
    if procs <= 1:
        return [func(x) for x in items]
    with multiprocessing.Pool(procs) as pool:
        return pool.map(func, items, chunksize=1)


# ------------------------------------------------------------------------------------------------
# verdicts, known findings, evidence


def load_known():
    p = os.path.join(VERIF, "known_findings.json")
    if not os.path.exists(p):
        return []
    return json.load(open(p))["findings"]


def sig_hash(sig):
    return hashlib.sha1(json.dumps(sig, sort_keys=True, ensure_ascii=False).encode()).hexdigest()[:12]


class Report:
    """Collects what one check observed and produces the verdict lines, evidence file and exit code."""

    def __init__(self, prop, tier, level="exploration"):
        self.prop = prop
        self.tier = tier
        self.level = level
        self.t0 = time.time()
        self.evaluations = 0
        self.classes = set()
        self.samples = []
        self.violations = {}  # signature(json str) -> dict(what, replay, count)
        self.inconclusive = []
        self.extra = {}
        self.rule = ""
        self.assumptions = []
        self.floor = 1
        self.abstained = 0

    # merging results coming back from worker processes
    def merge(self, part):
        self.evaluations += part.get("evaluations", 0)
        self.abstained += part.get("abstained", 0)
        self.classes.update(part.get("classes", ()))
        for s in part.get("samples", ()):
            if len(self.samples) < 12:
                self.samples.append(s)
        for v in part.get("violations", ()):
            self.violation(v["sig"], v["what"], v.get("replay"))
        self.inconclusive.extend(part.get("inconclusive", ()))
        for k, v in part.get("counts", {}).items():
            self.extra[k] = self.extra.get(k, 0) + v

    def violation(self, sig, what, replay=None):
        key = json.dumps(sig, sort_keys=True, ensure_ascii=False)
        v = self.violations.get(key)
        if v is None:
            self.violations[key] = {"sig": sig, "what": what, "replay": replay, "count": 1}
        else:
            v["count"] += 1

    def finish(self):
        known = [k for k in load_known() if k["property"] == self.prop and k.get("status") == "open"]
        known_keys = {json.dumps(k["signature"], sort_keys=True, ensure_ascii=False): k for k in known}
        new = []
        hit = []
        for key, v in self.violations.items():
            if key in known_keys:
                hit.append((known_keys[key], v))
            else:
                new.append(v)
        for k, v in hit:
            print("KNOWN-FINDING: property=%s %s (seen %d times this run)" % (self.prop, k["what"], v["count"]))
        rdir = os.path.join(VERIF, "replays", self.prop)
        new.sort(key=lambda v: (len(v["what"]), v["what"]))
        if len(new) > 12:
            print("(%d distinct violation signatures; the 12 shortest witnesses are listed)" % len(new))
        for v in new[:12]:
            os.makedirs(rdir, exist_ok=True)
            path = os.path.join(rdir, sig_hash(v["sig"]) + ".json")
            with open(path, "w") as f:
                json.dump({"property": self.prop, "signature": v["sig"], "what": v["what"], "replay": v["replay"], "seed": seed(), "tier": self.tier}, f, indent=1, ensure_ascii=False)
            print("VIOLATION property=%s replay=%s" % (self.prop, path))
            print("  what: %s" % v["what"][:600])
        for inc in self.inconclusive[:20]:
            print("INCONCLUSIVE property=%s %s" % (self.prop, inc))
        wall = time.time() - self.t0
        cov = {
            "evaluations": int(self.evaluations),
            "distinct_nontrivial": len(self.classes),
            "rule": self.rule,
            "samples": self.samples[:12],
            "abstained": self.abstained,
            "inconclusive": len(self.inconclusive),
            "known_findings_hit": [k["what"] for k, _ in hit],
        }
        cov.update(self.extra)
        ev = {
            "property_id": self.prop,
            "tier": self.tier,
            "seed": seed(),
            "level": self.level,
            "coverage": cov,
            "assumptions": self.assumptions,
            "wall_s": round(wall, 2),
            "violations": len(new),
        }
        os.makedirs(os.path.join(VERIF, "evidence"), exist_ok=True)
        with open(os.path.join(VERIF, "evidence", self.prop + ".json"), "w") as f:
            json.dump(ev, f, indent=1, ensure_ascii=False, default=str)
        print(
            "%s %s: evaluations=%d distinct_classes=%d abstained=%d violations=%d known=%d inconclusive=%d wall=%.1fs"
            % (self.prop, self.tier, self.evaluations, len(self.classes), self.abstained, len(new), len(hit), len(self.inconclusive), wall)
        )
        if new:
            return 1
        if self.evaluations < self.floor or len(self.classes) < 2:
            print("HARNESS-ERROR property=%s observed too little (evaluations=%d, classes=%d, floor=%d)" % (self.prop, self.evaluations, len(self.classes), self.floor))
            return 2
        return 0


def crash_verdict(run, what):
    """Classifies an executor that did not end normally. Returns (kind, detail):
    'signal' (death on a signal with the journal naming the step), 'hang', 'deadlock', 'timeout'
    (inconclusive) or 'harness'."""
    for r in run.records[-3:]:
        if "hang" in r:
            return "hang", "no step completed while %ss of CPU were consumed (journal %s)" % (r["hang"].get("cpu_s"), run.journal)
        if "deadlock" in r:
            return "deadlock", "all threads in untimed futex wait: %s" % r["deadlock"].get("threads", "")[:300]
    if run.timed_out:
        return "timeout", "wall-clock watchdog fired for %s (journal %s)" % (what, run.journal)
    if run.sig is not None:
        if run.journal:
            return "signal", "executor died on signal %d (%s) in step %s" % (run.sig, signal.Signals(run.sig).name if run.sig in [s.value for s in signal.Signals] else "?", run.journal)
        return "harness", "executor died on signal %d without a journal entry" % run.sig
    if run.code not in (0, None) and not run.ended:
        return "harness", "executor exit code %s: %s" % (run.code, getattr(run, "stderr", "")[-300:])
    return None, ""


def run_batch(steps, wd, name, profile="verifdbg", pre=(), stack_mb=8, timeout=600, max_restarts=4, **kw):
    """Runs `pre + steps` in one executor process; if the process dies, hangs or deadlocks at step k the
    event is recorded and the batch is restarted after k (the `pre` steps are replayed).
    Returns (records aligned with `steps` (None where no record exists), events)
    events: list of (kind, detail, step_index_in_steps)."""
    pre = list(pre)
    out = [None] * len(steps)
    events = []
    start = 0
    restarts = 0
    while start < len(steps):
        chunk = steps[start:]
        run = run_vexec(pre + chunk, wd, "%s.%d" % (name, restarts), profile, stack_mb=stack_mb, timeout=timeout, **kw)
        last = -1
        for r in run.records:
            if "i" in r and r["i"] >= len(pre):
                k = start + r["i"] - len(pre)
                if 0 <= k < len(out):
                    out[k] = r
                    last = max(last, k)
        # records of enumeration steps etc. that have no "i" are attached to the run for the caller
        kind, detail = crash_verdict(run, name)
        if kind is None and run.ended:
            extra = [r for r in run.records if "i" not in r]
            return out, events, extra
        failed = last + 1 if last >= start else start
        try:
            j = int(run.journal) - len(pre) + start if run.journal and run.journal.isdigit() else failed
        except ValueError:
            j = failed
        failed = max(failed, min(j, len(steps) - 1))
        events.append((kind or "harness", detail or "executor ended without end marker", failed))
        restarts += 1
        if restarts > max_restarts:
            break
        start = failed + 1
    return out, events, []


# ------------------------------------------------------------------------------------------------
# sanitizer / interpreter tiers (thorough): the same scenario shards under Miri, ASan, TSan, valgrind

NIGHTLY = "+nightly"
_san_built = {}


def san_env(kind):
    env = dict(ENV)
    env["CARGO_TARGET_DIR"] = os.path.join(TARGET, "san-" + kind)
    if kind == "asan":
        env["RUSTFLAGS"] = "-Zsanitizer=address -Cforce-frame-pointers=yes"
        env["ASAN_OPTIONS"] = "detect_leaks=0:halt_on_error=1:abort_on_error=1:detect_stack_use_after_return=0"
    elif kind == "tsan":
        env["RUSTFLAGS"] = "-Zsanitizer=thread"
        env["TSAN_OPTIONS"] = "halt_on_error=1:exitcode=66:second_deadlock_stack=1"
    elif kind == "miri":
        env["MIRIFLAGS"] = "-Zmiri-disable-isolation -Zmiri-ignore-leaks"
    return env


def build_sanitizer(kind):
    """Builds vexec under a sanitizer (nightly). Returns the binary path, or None when the toolchain
    cannot produce it here (the caller reports `inconclusive`, never a verdict)."""
    if kind in _san_built:
        return _san_built[kind]
    sync_lock()
    env = san_env(kind)
    lock = _locked(os.path.join(TARGET, ".verif-build-%s.lock" % kind))
    try:
        mp = os.path.join(HARNESS, "Cargo.toml")
        if kind == "asan":
            cmd = ["cargo", NIGHTLY, "build", "--offline", "--profile", "verifdbg", "--target", "x86_64-unknown-linux-gnu", "--manifest-path", mp]
        elif kind == "tsan":
            cmd = ["cargo", NIGHTLY, "build", "--offline", "-Zbuild-std", "--profile", "verifdbg", "--target", "x86_64-unknown-linux-gnu", "--manifest-path", mp]
        elif kind == "miri":
            # a dry run that compiles everything under the interpreter's sysroot
            empty = os.path.join(WORK, "miri-empty.jsonl")
            os.makedirs(WORK, exist_ok=True)
            open(empty, "w").write("")
            cmd = ["cargo", NIGHTLY, "miri", "run", "--offline", "--manifest-path", mp, "--", empty, os.path.join(WORK, "miri-empty.out"), "8"]
        else:
            raise HarnessError("unknown sanitizer " + kind)
        r = subprocess.run(cmd, env=env, stdout=subprocess.PIPE, stderr=subprocess.STDOUT, text=True)
        if r.returncode != 0:
            sys.stderr.write("sanitizer build %s failed:\n%s\n" % (kind, r.stdout[-3000:]))
            _san_built[kind] = None
            return None
    finally:
        lock.close()
    if kind == "miri":
        _san_built[kind] = "miri"
    else:
        p = os.path.join(env["CARGO_TARGET_DIR"], "x86_64-unknown-linux-gnu", "verifdbg", "vexec")
        _san_built[kind] = p if os.path.exists(p) else None
    return _san_built[kind]


def run_under(kind, steps, wd, name, timeout=3600, seed=None, stack_mb=8):
    """Runs a scenario under a sanitizer tier. Returns (run, reports) where reports is a list of
    sanitizer findings (strings); ([], None) style results never mean a verdict by themselves."""
    if kind == "valgrind":
        exe = build("release")
        vg = shutil.which("valgrind")
        if not vg:
            return None, ["unavailable: valgrind not installed"]
        run = run_vexec(steps, wd, name, binary=exe, wrapper=[vg, "--quiet", "--error-exitcode=99", "--errors-for-leak-kinds=none", "--leak-check=no"], timeout=timeout, stack_mb=stack_mb)
        reports = []
        if run.code == 99 or "== Invalid" in run.stderr or "uninitialised" in run.stderr:
            reports.append("valgrind memcheck: " + run.stderr[-1500:])
        return run, reports
    exe = build_sanitizer(kind)
    if exe is None:
        return None, ["unavailable: %s build failed" % kind]
    env = san_env(kind)
    if kind == "miri":
        if seed is not None:
            env["MIRIFLAGS"] += " -Zmiri-seed=%d" % seed
        sp = os.path.join(wd, name + ".scn.jsonl")
        op = os.path.join(wd, name + ".out.jsonl")
        with open(sp, "w") as f:
            for s in steps:
                f.write(json.dumps(s, ensure_ascii=False) + "\n")
        cmd = ["cargo", NIGHTLY, "miri", "run", "--offline", "--manifest-path", os.path.join(HARNESS, "Cargo.toml"), "--", sp, op, str(stack_mb)]
        t0 = time.time()
        try:
            pr = subprocess.run(cmd, env=env, stdout=subprocess.PIPE, stderr=subprocess.PIPE, timeout=timeout)
            rc, timed_out, err = pr.returncode, False, pr.stderr.decode("utf-8", "replace")
        except subprocess.TimeoutExpired:
            rc, timed_out, err = None, True, ""
        records = []
        if os.path.exists(op):
            for line in open(op, encoding="utf-8", errors="replace"):
                line = line.strip()
                if line:
                    try:
                        records.append(json.loads(line))
                    except (ValueError, RecursionError):
                        records.append({"unparsable": line[:100]})
        run = Run(records, rc if rc is not None and rc >= 0 else None, -rc if rc is not None and rc < 0 else None, None, time.time() - t0, timed_out, sp)
        run.stderr = err[-6000:]
        reports = []
        if "Undefined Behavior" in err or "error: unsupported operation" in err or "deadlock" in err or "Data race" in err or "data race" in err:
            idx = err.find("error:")
            reports.append("miri: " + err[idx: idx + 1800])
        elif rc not in (0, None) and not run.ended:
            reports.append("miri: interpreter exited with %s: %s" % (rc, err[-800:]))
        return run, reports
    run = run_vexec(steps, wd, name, binary=exe, env=env, timeout=timeout, stack_mb=stack_mb)
    reports = []
    if kind == "tsan" and (run.code == 66 or "WARNING: ThreadSanitizer" in run.stderr):
        reports.append("tsan: " + run.stderr[-2500:])
    if kind == "asan" and ("ERROR: AddressSanitizer" in run.stderr):
        reports.append("asan: " + run.stderr[-2500:])
    return run, reports



def first_repo_frame(text):
    m = re.search(r"(/repo/src/[A-Za-z_]+\.rs):(\d+)", text)
    if m:
        return m.group(1).replace("/repo/", "")
    m = re.search(r"(src/[A-Za-z_]+\.rs):(\d+)", text)
    return m.group(1) if m else "?"


def run_tool_tier(rep, mod, tool, shards, procs=None):
    """Re-runs selected shards of a property's workload under a sanitizer tier, judged by the same oracles;
    every tool report becomes a violation (signature: tool + first in-repo frame)."""
    rdir = os.path.join(WORK, "tool-reports", tool)
    shutil.rmtree(rdir, ignore_errors=True)
    if tool != "valgrind" and build_sanitizer(tool) is None:
        rep.inconclusive.append("%s tier unavailable (build failed)" % tool)
        return
    os.environ["VERIF_TOOL"] = tool
    t0 = time.time()
    from . import gen as _gen
    if tool == "miri":
        _gen.set_big(3, 2)
    try:
        parts = pmap(mod.run_shard, shards, procs)
    finally:
        os.environ.pop("VERIF_TOOL", None)
        _gen.set_big(*_gen._BIG)
    ev = 0
    for part in parts:
        ev += part.get("evaluations", 0)
        # counts of the tool tier are kept apart from the native ones
        part["counts"] = {"%s:%s" % (tool, k): v for k, v in part.get("counts", {}).items()}
        part["classes"] = ["%s:%s" % (tool, c) for c in part.get("classes", ())][:200]
        part["samples"] = []
        rep.merge(part)
    nrep, nruns = 0, 0
    if os.path.isdir(rdir):
        for fn in sorted(os.listdir(rdir)):
            fp = os.path.join(rdir, fn)
            if fn.endswith(".report.txt"):
                d = json.load(open(fp))
                nrep += 1
                rep.violation(["sanitizer", tool, first_repo_frame(d["report"])], "%s report while running %s: %s" % (tool, d["scenario"], d["report"][:1500]), {"tool": tool, "scenario": d["scenario"]})
            elif fn == "runs.txt":
                nruns = sum(1 for _ in open(fp))
            elif fn == "unavailable.txt":
                rep.inconclusive.append("%s: %s" % (tool, open(fp).read()[:200]))
    sr = rep.extra.setdefault("sanitizer_runs", [])
    sr.append({"tool": tool, "processes": nruns, "evaluations_judged": ev, "reports": nrep, "wall_s": round(time.time() - t0, 1)})
