"""C14 — handlers may re-enter the engine without deadlock.
Monitors: (a) inside every handler `ctx.0.try_lock()` on the context being evaluated (a direct, timeout-free
observation of "the engine holds the context lock across the handler"); (b) the re-entrant call itself, made on
the handler's own thread — if it never returns, the in-process supervisor finds every thread in an untimed futex
wait (deadlock verdict on state, not on time); (c) results of the outer evaluation and of the re-entrant call."""
import json
from .. import common, gen, ref

PROP = "C14"
RULE = ("full matrix handler kind {global function, context function by call, context function by bare name, prefix, infix CALC, infix SETTER, postfix} "
        "x re-entrant action {parse_expression, execute on a fresh context, execute on the SAME context (reads and assigns), lock the same context's handle, "
        "register_function, register_prefix_op, register_infix_op, register_postfix_op, re-register the running handler's own name} x nesting depth 1-3 x "
        "position (first/middle/last operand); each scenario is one step, <= 40 scenarios per process. distinct class = (handler kind, action, nesting, position)")
KINDS = ["gfn", "cfn-call", "cfn-bare", "prefix", "infix", "setter", "postfix"]
ACTIONS = ["parse", "exec_fresh", "exec_same", "lock_ctx", "reg_fn", "reg_prefix", "reg_infix", "reg_postfix", "rereg_self", "exec_other_same"]


def scenario(i, kind, action, nesting, pos, pad=1500):
    """-> (steps, expectations dict)"""
    hid = 2000 + i * 10
    hname = "h%dx" % i  # unique per scenario (registries are process-global)
    inner_name = "n%dx" % i
    steps = []
    # the innermost action
    if action == "parse":
        act = {"act": "parse", "text": "1 + 2 * q"}
    elif action == "exec_fresh":
        act = {"act": "exec_fresh", "text": "p = 1; q = p + 1; q * 3 + 1"}
    elif action == "exec_same":
        act = {"act": "exec_same", "text": "w = w0 + 1; w2 = w; w2"}
    elif action == "lock_ctx":
        act = {"act": "lock_ctx"}
    elif action == "exec_other_same":
        # a second, separate context binds its own function under the running handler's name; the handler evaluates a call of
        # that name with the same arguments there (a terminating, legitimate "recursion" by name)
        other = 1000000 + i
        steps.append({"op": "ctx", "id": other, "vars": {}, "fns": {hname: {"id": hid + 7, "ret": "const", "v": ["n", "7", 0]}}})
        act = {"act": "exec_shared", "ctx": other, "text": hname if kind == "cfn-bare" else "%s(7)" % hname}
    elif action == "rereg_self":
        reg = {"gfn": "reg_fn", "cfn-call": "reg_fn", "cfn-bare": "reg_fn", "prefix": "reg_prefix", "infix": "reg_infix", "setter": "reg_infix", "postfix": "reg_postfix"}[kind]
        act = {"act": reg, "name": hname, "beh": {"id": hid + 9, "ret": "last"}, "prec": 115, "type": "SETTER" if kind == "setter" else "CALC", "assoc": "LEFT"}
    else:
        act = {"act": action, "name": "r%dx" % i, "beh": {"id": hid + 8, "ret": "last"}, "prec": 115, "type": "CALC", "assoc": "LEFT"}
        # the new name is used at once, from inside the handler that registered it (evaluated, or only parsed)
        use = {"reg_fn": "4 + r%dx(3) * 2", "reg_prefix": "4 + (r%dx 3) * 2", "reg_postfix": "4 + (3 r%dx) * 2", "reg_infix": "4 + (1 r%dx 3) * 2"}[action] % i
        if (nesting + pos) % 3 != 2:
            act["then"] = use
        else:
            act["then_parse"] = use
    # nesting: the handler's action is `exec_fresh` of a program calling another re-entrant handler
    chain = act
    for lvl in range(nesting - 1, 0, -1):
        nm = "%s%d" % (inner_name, lvl)
        steps.append({"op": "reg_fn", "name": nm, "beh": {"id": hid + lvl, "log": True, "probe": True, "ret": "last", "reenter": chain}})
        # in the 100-level chains every nested program is also LONG (1500 flat statements, no extra nesting): 100 nested evaluations of
        # ordinary size each, about 150 000 evaluated nodes in total
        chain = {"act": "exec_same" if (action in ("exec_same", "lock_ctx")) else "exec_fresh", "text": "%s(5)" % nm + ("; 1" * pad if nesting >= DEEP else "")}
    beh = {"id": hid, "log": True, "probe": True, "ret": "last", "reenter": chain}
    ctx = {"op": "ctx", "id": i, "vars": {"w0": ["n", "41", 0], "v": ["n", "2", 0]}, "fns": {}}
    if kind == "gfn":
        steps.append({"op": "reg_fn", "name": hname, "beh": beh})
        call = "%s(7)" % hname
    elif kind == "cfn-call":
        ctx["fns"][hname] = beh
        call = "%s(7)" % hname
    elif kind == "cfn-bare":
        ctx["fns"][hname] = dict(beh, ret="const", v=["n", "7", 0])
        call = hname
    elif kind == "prefix":
        steps.append({"op": "reg_prefix", "name": hname, "beh": beh})
        call = "%s 7" % hname
    elif kind == "postfix":
        steps.append({"op": "reg_postfix", "name": hname, "beh": beh})
        call = "7 %s" % hname
    elif kind == "infix":
        steps.append({"op": "reg_infix", "name": hname, "prec": 125, "type": "CALC", "assoc": "LEFT", "beh": beh})
        call = "1 %s 7" % hname
    else:
        steps.append({"op": "reg_infix", "name": hname, "prec": 20, "type": "SETTER", "assoc": "RIGHT", "beh": beh})
        call = None
    if kind == "setter":
        text = {0: "v %s 7; 10 + 20 + v", 1: "x1 = 10; v %s 7; 20 + x1 + v", 2: "x1 = 10; x2 = 20; v %s 7; x1 + x2 + v"}[pos] % hname
    else:
        parts = ["10", "20"]
        parts.insert(pos, "(" + call + ")")
        text = " + ".join(parts)
    steps.append(ctx)
    steps.append({"op": "exec", "ctx": i, "text": text, "tag": "scn"})
    follow = None
    if action in ("reg_fn",):
        follow = {"op": "exec", "text": "r%dx(3)" % i, "tag": "follow"}
    elif action == "reg_prefix":
        follow = {"op": "exec", "text": "r%dx 3" % i, "tag": "follow"}
    elif action == "reg_postfix":
        follow = {"op": "exec", "text": "3 r%dx" % i, "tag": "follow"}
    elif action == "reg_infix":
        follow = {"op": "exec", "text": "1 r%dx 3" % i, "tag": "follow"}
    if follow and act.get("then_parse"):
        follow = {"op": "parse", "text": act["then_parse"], "want": "e", "tag": "follow"}
    if follow:
        steps.append(follow)
    exp = {"then_parse": act.get("then_parse"), "result": ["n", "37", 0], "follow": ["n", "3", 0] if follow and not act.get("then_parse") else None, "nesting": nesting, "action": action, "text": text}
    return steps, exp


def check_scenario(rec, follow_rec, exp):
    """-> list of (sig_tail, what)"""
    bad = []
    res = rec.get("res")
    log = rec.get("log", [])
    probes = [e["probe"] for e in log if "probe" in e]
    res_entries = [e["re"] for e in log if "re" in e]
    if not probes:
        bad.append((["handler-not-invoked"], "the handler was never invoked (log %s, result %s)" % (json.dumps(log)[:200], json.dumps(res))))
        return bad
    for p in probes:
        if not p["lock_ok"]:
            bad.append((["context-locked-during-handler", p["k"]], "while the %s handler ran, try_lock() on the evaluating context failed: the engine holds the context lock across the handler call, so locking it (or evaluating on it) from the handler self-deadlocks" % p["k"]))
            break
    for e in res_entries:
        r = e["res"]
        if r == "would_block":
            continue  # already reported by the probe
        if e["act"] == "parse" and not (isinstance(r, dict) and r.get("ok") == "1 + 2 * q"):
            bad.append((["reentrant-parse-wrong"], "parse_expression called from a %s handler returned %s" % (e["k"], json.dumps(r))))
        if e["act"] == "exec_fresh" and isinstance(r, dict) and "ok" in r and r["ok"][0] == "n" and exp["nesting"] == 1 and r["ok"] != ["n", "7", 0]:
            bad.append((["reentrant-exec-wrong"], "execute called from a %s handler returned %s, expected 7" % (e["k"], json.dumps(r))))
        if e["act"].startswith("reg_") and isinstance(r, dict) and exp["action"] != "rereg_self":
            if exp.get("then_parse"):
                want = {"ok": follow_rec.get("expr")} if follow_rec is not None and follow_rec.get("p") == "ok" else None
                if want is None:
                    bad.append((["registration-from-handler-lost"], "a program using the name registered from inside the handler does not parse afterwards: %s" % json.dumps(follow_rec)[:200]))
                elif r != want:
                    bad.append((["registered-in-handler-unusable-in-handler"], "a %s handler registered a new name and at once parsed `%s` (nested parse_expression): got %s, but after the handler returned the same text parses to %s" % (e["k"], exp["then_parse"], json.dumps(r), json.dumps(want))))
            elif r != {"ok": ["n", "10", 0]}:
                bad.append((["registered-in-handler-unusable-in-handler"], "a %s handler registered a new name and at once evaluated a program using it (nested execute): got %s, expected 10" % (e["k"], json.dumps(r))))
        if e["act"] == "exec_shared" and exp["nesting"] == 1 and r != {"ok": ["n", "7", 0]}:
            bad.append((["reentrant-exec-other-context-wrong"], "execute on a second context (binding its own function under the handler's name) called from a %s handler returned %s, expected 7" % (e["k"], json.dumps(r))))
        if e["act"] in ("exec_fresh", "exec_same", "exec_shared") and isinstance(r, dict) and "err" in r:
            bad.append((["reentrant-exec-error"], "execute called from a %s handler failed: %s" % (e["k"], r["err"])))
        if e["act"] == "exec_same" and exp["action"] == "exec_same" and exp["nesting"] == 1 and r != {"ok": ["n", "42", 0]}:
            bad.append((["reentrant-exec-same-wrong"], "execute on the same context from a %s handler returned %s, expected 42" % (e["k"], json.dumps(r))))
    if res != {"ok": exp["result"]}:
        bad.append((["outer-result"], "the outer evaluation `%s` returned %s, expected 37" % (exp["text"], json.dumps(res))))
    if exp["action"] == "exec_same" and not any(not p["lock_ok"] for p in probes):
        if (rec.get("snap") or {}).get("w") != ["n", "42", 0]:
            bad.append((["same-context-effect-lost"], "the assignment made by the re-entrant evaluation on the same context is not visible afterwards: %s" % json.dumps(rec.get("snap"))))
    if exp["action"] == "lock_ctx" and not any(not p["lock_ok"] for p in probes):
        if "locked_by_handler" not in (rec.get("snap") or {}):
            bad.append((["lock-effect-lost"], "the write made under the handler's own lock of the context is not visible afterwards"))
    if exp["follow"] is not None and follow_rec is not None and follow_rec.get("res") != {"ok": exp["follow"]}:
        bad.append((["registration-from-handler-lost"], "the operator/function registered from inside the handler does not work afterwards: %s" % json.dumps(follow_rec.get("res") or follow_rec.get("perr"))))
    return bad


DEEP = 100


def all_scenarios():
    out = []
    i = 0
    # "at any nesting depth": a chain of DEEP handlers, each re-entering execute to call the next one
    for kind in ("gfn", "cfn-call", "infix", "setter", "postfix"):
        for action in ("exec_fresh", "exec_same", "parse"):
            out.append((i, kind, action, DEEP, 1))
            i += 1
    for kind in KINDS:
        for action in ACTIONS:
            if action == "exec_other_same" and kind not in ("gfn", "cfn-call", "cfn-bare"):
                continue
            for nesting in (1, 2, 3):
                for pos in (0, 1, 2):
                    out.append((i, kind, action, nesting, pos))
                    i += 1
    return out


def shared_context_runs(si, n, profile, part):
    """two threads on ONE shared context: thread A's context function locks the context handle and, holding the guard,
    registers a function; thread B keeps calling a function on the same context. Neither may ever block the other for good."""
    wd = common.workdir(PROP)
    for h in range(n):
        cid = 1000000 + h
        nm = "shr%d_%d" % (si, h)
        fns = {"lk": {"id": 3000, "log": True, "ret": "last", "reenter": {"act": "lock_then_reg", "name": nm, "beh": {"id": 3001, "ret": "last"}}}, "hh": {"id": 3002, "ret": "last"}}
        steps = [{"op": "ctx", "id": cid, "vars": {"v": ["n", "1", 0]}, "fns": fns},
                 {"op": "threads", "plans": [[{"op": "exec", "ctx": cid, "text": "lk(1) + v", "nosnap": True} for _ in range(150)],
                                             [{"op": "hammer", "ctx": cid, "n": 1500, "text": "hh(1) + hh(2)"}],
                                             [{"op": "hammer", "ctx": cid, "n": 1500, "text": "hh(3)"}]]},
                 {"op": "exec", "text": "%s(5)" % nm}]
        run = common.run_vexec(steps, wd, "shared-%d-%d" % (si, h), profile, timeout=300)
        kind_, detail = common.crash_verdict(run, "shared context")
        part["evaluations"] += 1
        part["counts"]["shared_context_runs"] = part["counts"].get("shared_context_runs", 0) + 1
        if kind_ in ("deadlock", "hang", "signal"):
            part["violations"].append({"sig": [kind_, "shared-context", "lock_then_reg"], "what": "two threads on one shared context (A: context function locks the context handle and registers a function while holding it; B: calls functions on the same context): %s" % detail, "replay": {"steps": steps}})
            continue
        if kind_ is not None or not run.ended:
            part["inconclusive"].append("%s %s" % (kind_, detail))
            continue
        st = run.steps()
        th = st[1].get("threads", [])
        bad = None
        if not isinstance(th, list) or len(th) != 3 or not all(isinstance(x, list) for x in th):
            bad = "a thread panicked"
        else:
            for r in th[0]:
                if r.get("res") != {"ok": ["n", "2", 0]}:
                    bad = "thread A's evaluation returned %s" % json.dumps(r.get("res"))
            for t_ in th[1:]:
                for sg in t_[0].get("segs", []):
                    if sg["res"] not in ({"ok": ["n", "3", 0]},):
                        bad = "thread B's evaluation returned %s" % json.dumps(sg["res"])
        if st[2].get("res") != {"ok": ["n", "5", 0]}:
            bad = "the function registered from inside the handler does not work afterwards: %s" % json.dumps(st[2].get("res"))
        if bad:
            part["violations"].append({"sig": ["shared-context-wrong-result"], "what": bad, "replay": {"steps": steps}})
        else:
            part["classes"].add("shared-context:lock_then_reg")


def install_runs(si, profile, part):
    """a context function that, through the handle of the context it is evaluated in, installs or replaces the very function the
    outer program is about to call: the call (made after its arguments were evaluated) must use what is bound then"""
    wd = common.workdir(PROP)
    steps, plan = [], []
    k = 0
    for initial in ("absent", "ctx", "global"):
        for inst_form in ("inst(1)", "inst"):
            for shape in ("callee(%s)", "callee(2, %s)", "[%s, callee(3)]", "x = %s; callee(x)", "callee(callee0(%s))"):
                k += 1
                callee = "cal%dx%d" % (si, k)
                hid = 40000 + si * 1000 + k * 10
                fns = {"inst": {"id": hid + 1, "log": True, "probe": True, "ret": "const", "v": ["n", "5", 0], "reenter": {"act": "set_fn", "name": callee, "beh": {"id": hid + 6, "ret": "tag"}}},
                       "callee0": {"id": hid + 2, "ret": "last"}}
                if initial == "ctx":
                    fns[callee] = {"id": hid + 5, "ret": "tag"}
                elif initial == "global":
                    steps.append({"op": "reg_fn", "name": callee, "beh": {"id": hid + 4, "ret": "tag"}})
                    plan.append(None)
                text = shape.replace("callee(", callee + "(").replace("%s", inst_form)
                args = {"callee(%s)": ["5"], "callee(2, %s)": ["2", "5"], "[%s, callee(3)]": None, "x = %s; callee(x)": ["5"], "callee(callee0(%s))": ["5"]}[shape]
                tagged = lambda a: ["l", [["n", str(hid + 6), 0]] + [["n", x, 0] for x in a]]
                want = {"ok": tagged(args)} if args is not None else {"ok": ["l", [["n", "5", 0], tagged(["3"])]]}
                steps.append({"op": "ctx", "id": k, "vars": {}, "fns": fns})
                plan.append(None)
                steps.append(dict({"op": "exec", "ctx": k, "text": text}, **({"via": "execute"} if k % 2 else {})))
                plan.append((text, want, initial))
    recs, events, _ = common.run_batch(steps, wd, "install-%d-%s" % (si, profile), profile, timeout=300)
    for pl, r in zip(plan, recs):
        if pl is None or r is None:
            continue
        text, want, initial = pl
        part["evaluations"] += 1
        part["counts"]["install_scenarios"] = part["counts"].get("install_scenarios", 0) + 1
        blocked = any("probe" in e and not e["probe"]["lock_ok"] for e in r.get("log", []))
        if blocked:
            part["violations"].append({"sig": ["context-locked-during-handler", "install"], "what": "`%s`: the context is locked while the context function runs, it cannot install a function through its handle" % text, "replay": None})
        elif r.get("res") == want:
            part["classes"].add("install:%s:%s" % (initial, text.split("(")[0][:3]))
        else:
            part["violations"].append({"sig": ["installed-function-not-used", initial], "what": "`%s` (the called function was %s before; a context function evaluated as its argument installs a new one through the context handle): the outer evaluation returned %s, normal result %s" % (text, {"absent": "bound nowhere", "ctx": "bound in the context", "global": "registered globally"}[initial], json.dumps(r.get("res")), json.dumps(want)), "replay": None})
    for kind_, detail, k_ in events:
        if kind_ in ("deadlock", "hang", "signal"):
            part["violations"].append({"sig": [kind_, "install"], "what": "installing a function from inside a handler: %s" % detail, "replay": None})
        else:
            part["inconclusive"].append("%s: %s" % (kind_, detail))


def selfctx_runs(si, profile, part):
    """contexts of which the host keeps the ONLY strong handle (the functions hold a Weak of the public field, upgrade and really
    lock it), and context functions that rewrite the very variable the outer program is assigning: the assignment made after
    the handler returned decides the final value. Expected values are computed here from the program's construction."""
    wd = common.workdir(PROP)
    steps, plan = [], []
    n = lambda x: ["n", str(x), 0]
    ACTS = {"keep": {"act": "copy", "a": "spare", "b": "c", "ret": "arg0"},        # overwrites c with spare, returns its argument
            "forget": {"act": "remove", "a": "c", "ret": "const", "retval": n(0)},  # unbinds c, returns 0
            "one": {"act": "remove", "a": "c", "ret": "const", "retval": n(1)},
            "put": {"act": "set", "a": "c", "val": n(7), "ret": "const", "retval": n(7)},
            "same": {"act": "set", "a": "c", "val": n(41), "ret": "const", "retval": n(5)},  # sets c to 41, returns c's old value
            "peek": {"act": "lock", "ret": "arg0"}}
    PROGS = [("c = keep(c); c", 5), ("c = keep(5); c", 5), ("c += forget; c", 5), ("c += forget(); c", 5), ("c -= forget; c", 5), ("c *= one; c", 5),
             ("c /= one(); c", 5), ("c = put(1); c", 7), ("c = same; c", 5), ("c = same(); c", 5), ("c = peek(c) ; c", 5), ("c = peek(6); c", 6),
             ("d = keep(c); [c, d]", None), ("c = [keep(c)]; c", None), ("c = (c == 5 ? keep(c) : 0); c", 5), ("c = (keep(c)); spare = 1; c", 5),
             ("c = 5; c = keep(c); c", 5), ("c = 5.0; c = peek(5.00); c", 5), ("peek(1) + peek(2)", 3), ("peek", None)]
    for via in ("parse", "execute"):
        for mac in (False, True):
            for text, want in PROGS:
                steps.append({"op": "selfctx", "macro": mac, "via": via, "vars": {"c": n(5), "spare": n(99)}, "wfns": ACTS, "text": text})
                plan.append((text, want, via))
    recs, events, _ = common.run_batch(steps, wd, "selfctx-%d-%s" % (si, profile), profile, timeout=300, max_restarts=100)
    for k, (pl, r) in enumerate(zip(plan, recs)):
        if r is None:
            continue
        text, want, via = pl
        part["evaluations"] += 1
        part["counts"]["selfctx_scenarios"] = part["counts"].get("selfctx_scenarios", 0) + 1
        res = r.get("res")
        if want is None:
            if text.startswith("d ="):
                good = res == {"ok": ["l", [n(99), n(5)]]}
                wtxt = "[99, 5]"
            elif text.startswith("c = ["):
                good = res == {"ok": ["l", [n(5)]]}
                wtxt = "[5]"
            else:
                good = isinstance(res, dict) and "ok" in res
                wtxt = "any value"
        else:
            good = isinstance(res, dict) and "ok" in res and res["ok"][0] == "n" and int(res["ok"][1]) == want * 10 ** res["ok"][2]
            wtxt = str(want)
        if good and via == "parse" and want is not None and text.endswith("; c") and "spare = 1" not in text:
            snap = r.get("snap", {})
            cv = snap.get("c")
            if not (isinstance(cv, list) and cv[0] == "n" and int(cv[1]) == want * 10 ** cv[2]):
                good = False
                res = {"context_after": snap}
        if good:
            part["classes"].add("selfctx:%s:%s" % (via, text.split(";")[0][:14]))
        else:
            part["violations"].append({"sig": ["selfctx-wrong-result", text], "what": "context whose only strong handle is the host's (c = 5, spare = 99; `keep` copies spare over c through the handle and returns its argument, `forget`/`one` unbind c and return 0/1, `put` sets c = 7 and returns 7, `same` sets c = 41 and returns 5, `peek` only locks): `%s` (%s) gave %s, normal result %s" % (text, via, json.dumps(res), wtxt), "replay": None})
    for kind_, detail, k_ in events:
        if kind_ in ("deadlock", "hang", "signal"):
            pl = plan[k_] if isinstance(k_, int) and 0 <= k_ < len(plan) else None
            part["violations"].append({"sig": [kind_, "selfctx"], "what": "a context function that upgrades its Weak handle of the evaluating context and locks it%s: %s" % ((" in `%s` (%s)" % (pl[0], pl[2])) if pl else "", detail), "replay": None})
        else:
            part["inconclusive"].append("%s: %s" % (kind_, detail))


def chain_runs(si, profile, part):
    """statement chains whose earlier statement's handler acts on what a LATER statement of the same program uses: it registers an
    operator spelled like a variable / an operator sequence used later (the whole text was parsed before anything ran, so the later
    statement keeps its reading), or it writes, through the context handle, the variable a compound assignment is updating (the
    target was read before the right side ran)"""
    wd = common.workdir(PROP)
    steps, plan = [], []
    k = 0
    SYMS = ["+-", "-+", "*-", "<-", ">-", "<=-"]
    for via in ("execute", ""):
        for kind in ("prefix-word", "postfix-word", "infix-word", "infix-symbol", "target-write", "target-write-bare", "target-write-setter"):
            for stmts_before in (0, 1, 3):
                k += 1
                hid = 50000 + si * 2000 + k * 10
                nm = "cw%dx%d" % (si, k)
                lead = "".join("p%d = %d; " % (i, i) for i in range(stmts_before))
                fns, vars_ = {}, {nm: ["n", "7", 0], "c": ["n", "10", 0]}
                if kind == "prefix-word":
                    fns["inst"] = {"id": hid, "ret": "const", "v": ["n", "0", 0], "reenter": {"act": "reg_prefix", "name": nm, "beh": {"id": hid + 1, "ret": "tag"}}}
                    text, want = lead + "inst(); %s" % nm, ["n", "7", 0]
                elif kind == "postfix-word":
                    fns["inst"] = {"id": hid, "ret": "const", "v": ["n", "0", 0], "reenter": {"act": "reg_postfix", "name": nm, "beh": {"id": hid + 1, "ret": "tag"}}}
                    text, want = lead + "inst; 3 ; %s" % nm, ["n", "7", 0]
                elif kind == "infix-word":
                    fns["inst"] = {"id": hid, "ret": "const", "v": ["n", "0", 0], "reenter": {"act": "reg_infix", "name": nm, "prec": 115, "type": "CALC", "assoc": "LEFT", "beh": {"id": hid + 1, "ret": "tag"}}}
                    text, want = lead + "x = inst(); 1 ; %s ; 2" % nm, ["n", "2", 0]
                elif kind == "infix-symbol":
                    sym = SYMS.pop(0)  # each symbol once per process: the registries are process-global
                    fns["inst"] = {"id": hid, "ret": "const", "v": ["n", "0", 0], "reenter": {"act": "reg_infix", "name": sym, "prec": 115, "type": "CALC", "assoc": "LEFT", "beh": {"id": hid + 1, "ret": "tag"}}}
                    text = lead + "inst(); 10 %s 3" % sym
                    want = {"+-": ["n", "7", 0], "-+": ["n", "7", 0], "*-": ["n", "-30", 0], "<-": ["b", False], ">-": ["b", True], "<=-": ["b", False]}[sym]
                elif kind == "target-write":
                    fns["bump"] = {"id": hid, "ret": "const", "v": ["n", "1", 0], "reenter": {"act": "exec_same", "text": "c = 100"}}
                    text, want = lead + "c = 10; c += bump(); c", ["n", "11", 0]
                elif kind == "target-write-bare":
                    fns["bump"] = {"id": hid, "ret": "const", "v": ["n", "1", 0], "reenter": {"act": "exec_same", "text": "c = 100"}}
                    text, want = lead + "c -= bump; c", ["n", "9", 0]
                else:
                    fns["bump"] = {"id": hid, "ret": "const", "v": ["n", "1", 0], "reenter": {"act": "exec_same", "text": "c = 100"}}
                    text, want = lead + "c *= 2 + bump(); c", ["n", "30", 0]
                steps.append({"op": "ctx", "id": k, "vars": vars_, "fns": fns})
                plan.append(None)
                steps.append(dict({"op": "exec", "ctx": k, "text": text}, **({"via": via} if via else {})))
                plan.append((text, want, kind, via or "parse_expression + exec"))
    recs, events, _ = common.run_batch(steps, wd, "chain-%d-%s" % (si, profile), profile, timeout=300)
    for pl, r in zip(plan, recs):
        if pl is None or r is None:
            continue
        text, want, kind, via = pl
        part["evaluations"] += 1
        part["counts"]["chain_scenarios"] = part["counts"].get("chain_scenarios", 0) + 1
        if r.get("res") == {"ok": want}:
            part["classes"].add("chain:%s:%s" % (kind, via.split(" ")[0]))
        else:
            part["violations"].append({"sig": ["handler-changed-later-statement", kind, via.split(" ")[0]], "what": "`%s` (%s), where the handler %s: the outer evaluation returned %s, normal result %s" % (
                text, via, "registers an operator that a later statement's text could be read with" if not kind.startswith("target") else "writes the assignment target through the context handle while the right side is evaluated", json.dumps(r.get("res")), json.dumps({"ok": want})), "replay": None})
    for kind_, detail, k_ in events:
        if kind_ in ("deadlock", "hang", "signal"):
            part["violations"].append({"sig": [kind_, "chain"], "what": "statement chain with an acting handler: %s" % detail, "replay": None})
        else:
            part["inconclusive"].append("%s: %s" % (kind_, detail))


def run_shard(desc):
    si, scns, profile = desc
    wd = common.workdir(PROP)
    part = {"evaluations": 0, "classes": set(), "violations": [], "samples": [], "abstained": 0, "inconclusive": [], "counts": {"scenarios": 0, "reentrant_calls_performed": 0, "lock_probes": 0}}
    if scns == "shared":
        shared_context_runs(si, 3, profile, part)
        part["classes"] = sorted(part["classes"])
        return part
    if scns == "install":
        install_runs(si, profile, part)
        part["classes"] = sorted(part["classes"])
        return part
    if scns == "selfctx":
        selfctx_runs(si, profile, part)
        part["classes"] = sorted(part["classes"])
        return part
    if scns == "chain":
        chain_runs(si, profile, part)
        part["classes"] = sorted(part["classes"])
        return part
    steps, index = [], []
    for (i, kind, action, nesting, pos) in scns:
        # under Miri (about four orders of magnitude slower) the 100-level chains carry 12 extra statements per level instead of 1500
        st, exp = scenario(i, kind, action, nesting, pos, pad=12 if profile == "miri" else 1500)
        base = len(steps)
        steps.extend(st)
        scn_at = base + max(j for j, s in enumerate(st) if s.get("tag") == "scn")
        fol_at = base + len(st) - 1 if st[-1].get("tag") == "follow" else None
        index.append((scn_at, fol_at, exp, (kind, action, nesting, pos)))
    recs, events, _ = common.run_batch(steps, wd, "matrix-%d" % si, profile, timeout=600, max_restarts=60)
    for scn_at, fol_at, exp, cls in index:
        r = recs[scn_at]
        if r is None:
            continue
        part["evaluations"] += 1
        part["counts"]["scenarios"] += 1
        part["counts"]["lock_probes"] += sum(1 for e in r.get("log", []) if "probe" in e)
        part["counts"]["reentrant_calls_performed"] += sum(1 for e in r.get("log", []) if "re" in e and e["re"]["res"] != "would_block")
        bad = check_scenario(r, recs[fol_at] if fol_at is not None else None, exp)
        if not bad:
            part["classes"].add("%s:%s:n%d:p%d" % cls)
            if len(part["samples"]) < 2:
                part["samples"].append({"handler": cls[0], "action": cls[1], "nesting": cls[2], "program": exp["text"], "log": r.get("log")[:4]})
        for tail, what in bad:
            part["violations"].append({"sig": tail + [cls[0]] if tail[0] != "context-locked-during-handler" else ["context-locked-during-handler", cls[0]],
                                       "what": "handler kind %s, action %s, nesting %d, position %d: %s" % (cls + (what,)), "replay": {"scenario": list(cls)}})
    for kind_, detail, k in events:
        if kind_ in ("deadlock", "hang", "signal"):
            cls = next((c for (a, f, e, c) in index if a == k or f == k), None)
            part["violations"].append({"sig": [kind_, cls[0] if cls else "?", cls[1] if cls else "?"],
                                       "what": "handler kind %s performing %s from inside the handler never returned: %s" % (cls[0] if cls else "?", cls[1] if cls else "?", detail), "replay": {"scenario": list(cls) if cls else None}})
        else:
            part["inconclusive"].append("%s: %s" % (kind_, detail))
    part["classes"] = sorted(part["classes"])
    return part


def run(rep, tier):
    rep.rule = RULE
    rep.assumptions = ["a re-entrant call that the try_lock probe shows would self-deadlock is skipped (reported as a violation through the probe) so the process survives", "deadlock verdict: every thread of the executor in an untimed futex wait with no CPU consumption"]
    common.build("verifdbg")
    common.build("release")
    scns = all_scenarios()
    shards = []
    nsh = 32
    for i in range(nsh):
        shards.append((i, scns[i::nsh], "verifdbg"))
        shards.append((100 + i, scns[i::nsh], "release"))
    for i in range(8 if tier == "quick" else 64):
        shards.append((900 + i, "shared", "release" if i % 2 else "verifdbg"))
    shards += [(950, "install", "verifdbg"), (951, "install", "release"), (960, "chain", "verifdbg"), (961, "chain", "release"), (970, "selfctx", "verifdbg"), (971, "selfctx", "release")]
    for part in common.pmap(run_shard, shards):
        rep.merge(part)
    rep.extra["exhaustive"] = True
    rep.extra["exhaustive_space"] = "7 handler kinds x 9 actions (+ 1 for the 3 function kinds) x 3 nesting depths x 3 positions = 594 scenarios + 15 chains of %d nested re-entrant handlers, under both profiles" % DEEP
    rep.floor = 1000


def san_shards(tier):
    """under Miri a same-thread re-lock is reported by the interpreter itself ("the evaluated program deadlocked")"""
    scns = all_scenarios()
    return [("miri", [(500 + i, scns[i::32], "miri") for i in range(32)])]


def replay(path):
    d = json.load(open(path))
    cls = d["replay"].get("scenario")
    if not cls:
        return 0
    st, exp = scenario(0, *cls)
    run = common.run_vexec(st, common.workdir(PROP, "replay"), "replay", "verifdbg", timeout=120)
    kind, detail = common.crash_verdict(run, "replay")
    print(kind, detail)
    recs = run.steps()
    scn = [r for r in recs if r.get("tag") == "scn"]
    fol = [r for r in recs if r.get("tag") == "follow"]
    if kind in ("deadlock", "hang") or not scn or check_scenario(scn[0], fol[0] if fol else None, exp):
        print(json.dumps(scn[:1])[:800])
        print("VIOLATION property=%s replay=%s" % (PROP, path))
        return 1
    return 0
