"""C04 — runtime faults surface as Err: no panic, no silently wrapped number, debug and release alike.
Oracle: R-EVAL on the fault product (operators x edge values), each program run under both build profiles
(overflow checks on / off) and the two outcomes also compared with each other."""
import itertools
import json
from .. import common, gen, ref, evalcheck

PROP = "C04"
RULE = ("fault product: every arithmetic / compound-assignment / bit / shift operator, ++ --, min max sum mul, over pairs of edge values "
        "(0, +-Decimal::MAX, MAX-1, 1e-28, 28-digit scales, i64::MIN/MAX, +-2^63, 2^64, shift counts -1 63 64 65 2^32, non-integral, wrongly typed, "
        "None, empty lists) given as literals and as context variables, plus random depth<=3 trees over edge leaves; every program under both "
        "profiles. distinct class = (operator, operand classes, expected outcome class)")

MAXD = gen.MAXD
I64MAX = gen.I64MAX
NUMS = [(0, 0), (1, 0), (-1, 0), (2, 0), (5, 1), (-5, 1), (1, 28), (-1, 28), (3, 28), (MAXD, 0), (-MAXD, 0), (MAXD - 1, 0), (MAXD, 1), (MAXD, 28), (10 ** 28, 0), (5 * 10 ** 28, 0),
        (I64MAX, 0), (-I64MAX - 1, 0), (I64MAX + 1, 0), (-I64MAX - 2, 0), (1 << 64, 0), (10, 0), (3, 0), (30, 1), (7, 0), (10 ** 14, 0), (10 ** 15, 0), (99999999999999, 14), (2, 1)]
COUNTS = [(5 * 10 ** 9, 10), (15 * 10 ** 19, 20), (2 * 10 ** 10, 10), (-1, 0), (0, 0), (1, 0), (62, 0), (63, 0), (64, 0), (65, 0), (1 << 32, 0), ((1 << 32) + 1, 0), (5, 1), (630, 1), (640, 1), (1 << 63, 0), (-64, 0), (128, 0)]
INTS = [(15 * 10 ** 9, 10), (5 * 10 ** 9, 10), (25 * 10 ** 20, 22), (-25 * 10 ** 9, 10), (3 * 10 ** 10, 10), (0, 0), (1, 0), (-1, 0), (2, 0), (I64MAX, 0), (-I64MAX - 1, 0), (I64MAX + 1, 0), (-I64MAX - 2, 0), (1 << 64, 0), (15, 1), (30, 1), (MAXD, 0), (1 << 62, 0), (-3, 0), (300, 2), (1, 28)]
OTHERS = [("b", True), ("s", "1"), ("s", ""), ("z",), ("l", ()), ("l", (("n", 1),))]


def val(m, s):
    return ["n", str(m), s]


def other_json(o):
    return ref.value_to_json(("l", tuple(("n", __import__("fractions").Fraction(x[1])) for x in o[1])) if o[0] == "l" else o)


def operand_forms(v, name, literal):
    """(ast, vars) for an operand given either as literal or as context variable"""
    if isinstance(v, tuple) and len(v) == 2 and isinstance(v[0], int):
        if literal:
            return gen.num_lit(v[0], v[1]), {}
        return ["ref", name], {name: val(v[0], v[1])}
    j = other_json(v)
    if literal:
        if v[0] == "b":
            return ["bool", v[1]], {}
        if v[0] == "s":
            return ["str", v[1]], {}
        if v[0] == "z":
            return ["ref", "nil"], {}
        return ["list", [["num", "1", 0]] * len(v[1])], {}
    return ["ref", name], {name: j}


def product():
    out = []
    arith = ["+", "-", "*", "/", "%"]
    vals = NUMS + OTHERS
    k = 0
    for op in arith:
        for a in vals:
            for b in vals:
                k += 1
                lit = k % 2 == 0
                x, vx = operand_forms(a, "x", lit)
                y, vy = operand_forms(b, "y", lit)
                out.append((["bin", op, x, y], dict(vx, **vy), op))
                # compound-assignment form: the target is always a variable
                tx, tvx = operand_forms(a, "x", False)
                out.append((["stmt", [["bin", op + "=", ["ref", "x"], y], ["ref", "x"]]], dict(tvx, **vy), op + "="))
    for op in ["<<", ">>"]:
        for a in INTS + OTHERS[:4]:
            for b in COUNTS + OTHERS[:4]:
                k += 1
                lit = k % 2 == 0
                x, vx = operand_forms(a, "x", lit)
                y, vy = operand_forms(b, "y", lit)
                out.append((["bin", op, x, y], dict(vx, **vy), op))
                tx, tvx = operand_forms(a, "x", False)
                out.append((["stmt", [["bin", op + "=", ["ref", "x"], y], ["ref", "x"]]], dict(tvx, **vy), op + "="))
    for op in ["&", "|", "^"]:
        for a in INTS + OTHERS[:4]:
            for b in INTS + OTHERS[:4]:
                k += 1
                lit = k % 2 == 0
                x, vx = operand_forms(a, "x", lit)
                y, vy = operand_forms(b, "y", lit)
                out.append((["bin", op, x, y], dict(vx, **vy), op))
                tx, tvx = operand_forms(a, "x", False)
                out.append((["stmt", [["bin", op + "=", ["ref", "x"], y], ["ref", "x"]]], dict(tvx, **vy), op + "="))
    # ordering operators demand numbers on both sides, whatever the two operands are (equal, same variable, both wrongly typed)
    cmp_vals = [v for i, v in enumerate(NUMS) if i % 4 == 0] + OTHERS + [("s", "a"), ("b", False), ("l", (("n", 1), ("n", 2)))]
    for op in ["<", "<=", ">", ">="]:
        for a in cmp_vals:
            for b in cmp_vals:
                k += 1
                lit = k % 2 == 0
                x, vx = operand_forms(a, "x", lit)
                y, vy = operand_forms(b, "y", lit)
                out.append((["bin", op, x, y], dict(vx, **vy), op))
            x, vx = operand_forms(a, "x", False)
            out.append((["bin", op, x, x], vx, op + " same"))
    # type matrix of the remaining built-in operators: membership (plain and negated), string tests, boolean connectives, conditions
    tvals = [(1, 0), (0, 0), (5, 1)] + OTHERS + [("s", "a"), ("b", False), ("l", (("n", 1), ("n", 2)))]
    for op in ["in", "beginWith", "endWith", "&&", "||", "==", "!="]:
        for a in tvals:
            for b in tvals:
                k += 1
                lit = k % 2 == 0
                x, vx = operand_forms(a, "x", lit)
                y, vy = operand_forms(b, "y", lit)
                out.append((["bin", op, x, y], dict(vx, **vy), op))
                if op in ("in", "beginWith", "=="):
                    out.append((["un", "not", ["bin", op, x, y]], dict(vx, **vy), "not " + op))
    for a in tvals:
        x, vx = operand_forms(a, "x", False)
        out.append((["tern", x, ["num", "1", 0], ["num", "2", 0]], vx, "?:"))
        for br in ([["bool", True], ["bool", False]], [["bool", False], ["bool", True]], [["bool", True], ["bool", True]], [x, x], [["ref", "nil"], ["ref", "nil"]], [["num", "1", 0], ["num", "1", 0]]):
            out.append((["tern", x, br[0], br[1]], vx, "?: same/bool branches"))
            out.append((["list", [["tern", x, br[0], br[1]]]], vx, "[?:]"))
        for op in ("AND", "OR"):
            out.append((["un", op, x], vx, "prefix " + op))
            out.append((["un", op, ["list", [["bool", True], x]]], vx, "prefix " + op + " [..]"))
    for op in ["++", "--"]:
        for a in vals:
            for lit in (True, False):
                x, vx = operand_forms(a, "x", lit)
                out.append((["post", x, op], vx, op))
    for op in ["-", "+", "!", "not"]:
        for a in vals:
            x, vx = operand_forms(a, "x", False)
            out.append((["un", op, x], vx, "prefix " + op))
    # stacks of two to four prefix operators (same and mixed) over every value
    some = [v for i, v in enumerate(vals) if i % 3 == 0 or not (isinstance(v[0], int))]
    for depth in (2, 3, 4):
        for ops in itertools.product(["-", "+", "!", "not"], repeat=depth):
            if depth == 4 and len(set(ops)) > 2:
                continue
            for ai, a in enumerate(some):
                if depth > 2 and (ai + len(ops[0])) % 2:
                    continue
                x, vx = operand_forms(a, "x", ai % 2 == 0)
                t = x
                for op in reversed(ops):
                    t = ["un", op, t]
                out.append((t, vx, "prefix-stack " + " ".join(ops)))
    agg_pool = [(0, 0), (1, 0), (MAXD, 0), (-MAXD, 0), (5, 1), (1, 28), (10 ** 15, 0), (2, 0)] + [("s", "1"), ("z",)]
    for f in ref.BUILTIN_FUNCS:
        for n in range(0, 4):
            for args in itertools.product(range(len(agg_pool)), repeat=n):
                if n == 3 and (args[0] + args[1] * 3 + args[2] * 7) % 3:
                    continue
                vars_ = {}
                asts = []
                for i, ai in enumerate(args):
                    x, vx = operand_forms(agg_pool[ai], "v%d" % i, (i + ai) % 2 == 0)
                    vars_.update(vx)
                    asts.append(x)
                out.append((["fn", f, asts], vars_, f + "()"))
    return out


def edge_tree(rnd, d):
    if d <= 0 or rnd.random() < 0.25:
        m, s = rnd.choice(NUMS + COUNTS + INTS)
        if rnd.random() < 0.1:
            return rnd.choice([["bool", True], ["str", "1"], ["ref", "nil"], ["list", []]])
        return gen.num_lit(m, s)
    k = gen.wchoice(rnd, [("arith", 6), ("bit", 3), ("post", 1.5), ("agg", 2), ("neg", 1), ("asg", 1.5)])
    if k == "arith":
        return ["bin", rnd.choice(["+", "-", "*", "/", "%"]), edge_tree(rnd, d - 1), edge_tree(rnd, d - 1)]
    if k == "bit":
        return ["bin", rnd.choice(["<<", ">>", "&", "|", "^"]), edge_tree(rnd, d - 1), edge_tree(rnd, d - 1)]
    if k == "post":
        return ["post", edge_tree(rnd, d - 1), rnd.choice(["++", "--"])]
    if k == "agg":
        return ["fn", rnd.choice(ref.BUILTIN_FUNCS), [edge_tree(rnd, d - 1) for _ in range(rnd.randint(0, 3))]]
    if k == "neg":
        return ["un", "-", edge_tree(rnd, d - 1)]
    return ["list", [["bin", rnd.choice(["+=", "-=", "*=", "/=", "%=", "<<=", ">>=", "&=", "|=", "^="]), ["ref", "q"], edge_tree(rnd, d - 1)], ["ref", "q"]]]


def run_shard(desc):
    kind, si, nshards, n = desc
    rnd = common.rng(PROP, kind, si)
    progs, labels = [], []
    if kind == "product":
        for i, (t, vars_, label) in enumerate(product()):
            if i % nshards == si:
                progs.append({"tree": t, "text": ref.Renderer().render(t), "vars": vars_})
                labels.append(label)
                if i % 5 == 0 and t[0] != "stmt":
                    # the fault must also surface when the expression is a non-final statement
                    t2 = ["stmt", [t, ["num", "5", 0]]]
                    progs.append({"tree": t2, "text": ref.Renderer().render(t2), "vars": vars_})
                    labels.append(label + ";")
    elif kind == "wide":
        # aggregates, operator chains and statement sequences of every width 0..40 (and a few long ones) whose running value
        # leaves the range (or meets a wrongly typed operand) only at a late position
        while len(progs) < n:
            w = rnd.choice(list(range(0, 41)) + [64, 65, 100, 257])
            sc = rnd.choice([0, 0, 1, 5, 28])
            big = rnd.choice([MAXD, MAXD, MAXD - 1, MAXD // 2 + 1, MAXD // 3, MAXD // 16 + 1, MAXD // 16, 10 ** 27, I64MAX])
            same = rnd.random() < 0.6
            sign = rnd.choice([1, 1, -1])
            vals = [gen.num_lit(sign * big, sc if same else rnd.choice([0, 1, sc])) for _ in range(w)]
            bad_at = rnd.randrange(w) if w and rnd.random() < 0.2 else None
            if bad_at is not None:
                vals[bad_at] = rnd.choice([["str", "1"], ["bool", True], ["ref", "nil"], ["list", []]])
            form = rnd.choice(["sum", "sum", "mul", "max", "min", "plus", "times", "stmts", "shl"])
            vars_ = {}
            if form in ("sum", "max", "min"):
                t = ["fn", form, vals]
            elif form == "mul":
                t = ["fn", "mul", [gen.num_lit(rnd.choice([2, 2, 3, 10, -2]), 0) if bad_at != i else vals[i] for i in range(w)]]
            elif form in ("plus", "times"):
                t = vals[0] if w else ["num", "1", 0]
                for i, v in enumerate(vals[1:]):
                    t = ["bin", "+" if form == "plus" else "*", t, v if form == "plus" else (gen.num_lit(rnd.choice([2, 3, 10]), 0) if bad_at != i + 1 else v)]
            elif form == "stmts":
                op = rnd.choice(["+=", "-=", "*="])
                t = ["stmt", [["bin", "=", ["ref", "acc"], gen.num_lit(rnd.choice([0, 1, 7]), sc)]] + [["bin", op, ["ref", "acc"], v if op != "*=" else gen.num_lit(rnd.choice([2, 10]), 0)] for v in vals] + [["ref", "acc"]]]
            else:
                t = ["num", "1", 0]
                for i in range(w):
                    t = ["bin", "<<", t, ["num", str(rnd.choice([1, 1, 2, 7])), 0]]
            progs.append({"tree": t, "text": ref.Renderer().render(t), "vars": vars_})
            labels.append("wide " + form)
    else:
        for _ in range(n):
            t = edge_tree(rnd, rnd.randint(1, 3))
            m, s = rnd.choice(NUMS)
            progs.append({"tree": t, "text": ref.Renderer().render(t), "vars": {"q": val(m, s)}})
            labels.append(None)
    part = {"evaluations": 0, "classes": set(), "violations": [], "samples": [], "abstained": 0, "inconclusive": [], "counts": {"wl_" + kind: 0, "expected_err": 0, "expected_ok": 0, "profile_pairs_compared": 0}}
    outs = {}
    import os
    for profile in (("verifdbg",) if os.environ.get("VERIF_TOOL") else ("verifdbg", "release")):
        res, events = evalcheck.run_programs(PROP, "%s-%d-%s" % (kind, si, profile), progs, profile, check_ctx=True)
        outs[profile] = res
        for p, label, (st, detail, rec, exp, ev) in zip(progs, labels, res):
            if st in ("norecord", "skip-c02"):
                continue
            part["evaluations"] += 1
            part["counts"]["wl_" + kind] += 1
            if st == "abstain":
                part["abstained"] += 1
                continue
            op = label or evalcheck.top_op(p["tree"])
            if st == "pass":
                part["counts"]["expected_" + exp[0]] = part["counts"].get("expected_" + exp[0], 0) + 1
                cls = [evalcheck.value_class(ref.value_from_json(v)) for v in p["vars"].values()]
                part["classes"].add("%s:%s:%s" % (op, ",".join(cls), exp[0] if exp[0] != "ok" else evalcheck.value_class(exp[1])))
                if len(part["samples"]) < 2 and exp[0] == "err":
                    part["samples"].append({"program": p["text"], "vars": p["vars"], "profile": profile, "result": "Err (as required)"})
                continue
            if len(part["violations"]) < 80:
                part["violations"].append({"sig": [st, op], "what": "[%s build] `%s` with %s: %s" % (profile, p["text"], json.dumps(p["vars"]), detail),
                                           "replay": {"program": p["text"], "tree": p["tree"], "vars": p["vars"], "profile": profile}})
        for kind_, detail, k in events:
            if kind_ in ("signal", "hang", "deadlock"):
                part["violations"].append({"sig": ["crash", kind_], "what": detail, "replay": None})
            else:
                part["inconclusive"].append("%s: %s" % (kind_, detail))
    for p, a, b in zip(progs, outs["verifdbg"], outs.get("release", [])):
        if a[2] is None or b[2] is None:
            continue
        ra, rb = a[2].get("res"), b[2].get("res")
        part["counts"]["profile_pairs_compared"] += 1
        na = ref.outcome_from_record(ra) if ra else None
        nb = ref.outcome_from_record(rb) if rb else None
        if (na and na[0]) != (nb and nb[0]) or (na and na[0] == "ok" and na != nb):
            if len(part["violations"]) < 80:
                part["violations"].append({"sig": ["profile-dependent", evalcheck.top_op(p["tree"])],
                                           "what": "`%s` with %s gives %s with overflow checks and %s without" % (p["text"], json.dumps(p["vars"]), json.dumps(ra), json.dumps(rb)),
                                           "replay": {"program": p["text"], "tree": p["tree"], "vars": p["vars"], "profile": "both"}})
    part["classes"] = sorted(part["classes"])
    return part


def run(rep, tier):
    rep.rule = RULE
    rep.assumptions = ["a result is required to be Err when the exact value leaves the 96-bit range; in-range results that are not representable with <= 28 decimals are only required not to panic",
                       "both profiles: verifdbg (overflow-checks, debug-assertions on) and release (off)"]
    common.build("verifdbg")
    common.build("release")
    shards = [("product", i, 16, 0) for i in range(16)]
    n = 24000 if tier == "quick" else 1000000
    per = 1500 if tier == "quick" else 30000
    for i in range(n // per):
        shards.append(("tree", i, 0, per))
    for i in range(16):
        shards.append(("wide", i, 0, 250 if tier == "quick" else 8000))
    for part in common.pmap(run_shard, shards):
        rep.merge(part)
    rep.extra["exhaustive"] = True
    rep.extra["exhaustive_space"] = "fault product of %d programs, each under 2 profiles" % len(product())
    rep.floor = 10000


def san_shards(tier):
    """arithmetic UB (unchecked shifts, overflow in the dependency) shows up under Miri even where release would mask it"""
    return [("miri", [("product", i, 128, 0) for i in range(16)] + [("tree", 100 + i, 0, 25) for i in range(16)])]


def replay(path):
    d = json.load(open(path))
    r = d["replay"]
    bad = False
    for profile in (["verifdbg", "release"] if r.get("profile") == "both" else [r.get("profile", "verifdbg")]):
        res, _ = evalcheck.run_programs(PROP, "replay", [{"tree": r["tree"], "text": r["program"], "vars": r["vars"]}], profile, check_ctx=True)
        st, detail, rec, exp, ev = res[0]
        print(profile, st, detail, json.dumps(rec.get("res") if rec else None))
        bad |= st.startswith("viol")
    if bad:
        print("VIOLATION property=%s replay=%s" % (PROP, path))
        return 1
    return 0
