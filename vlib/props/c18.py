"""C18 — describe() renders each node with exactly the descriptor registered for it.
One fresh process per configuration: marker descriptors (unique id + all arguments in bracketed form) are
registered through the hook, ASTs are described before / between / after registrations and compared with
R-DESC under 'last registration wins' and the documented defaults."""
import itertools
import json
from .. import common, gen, ref

PROP = "C18"
RULE = ("configurations = subsets of (kind, name) descriptor registrations over the nine node kinds: all 9 single-kind and all 36 kind-pair "
        "configurations, same-symbol batteries (`-` as UNARY / BINARY, `!`/`++` registered as both prefix and postfix operator, name x as FUNCTION "
        "vs REFERENCE), random subsets; in each, a battery of parsed ASTs containing every kind and registered/unregistered names is described "
        "before any registration, after each batch, and after re-registration with new ids. distinct class = (descriptor key, registered | default)")
KINDS = ["UNARY", "BINARY", "POSTFIX", "TERNARY", "FUNCTION", "REFERENCE", "LIST", "MAP", "CHAIN"]
NAMES = {"UNARY": ["-", "!", "not", "AND", "++", "neg2"], "BINARY": ["+", "-", "*", "==", "in", "=", "&&", "<+>"], "POSTFIX": ["++", "--", "!", "pct2"], "FUNCTION": ["f", "g", "x", "min", "rateBB", "ärea"], "REFERENCE": ["x", "y", "f", "min", "tierBB", "é", "ünit.price"]}
BATTERY = [
    "- x + y * 2", "! a && not b", "x ++ - y --", "c ? x : y", "f(x, 1) + g() + min(2, 3)", "[x, y, [1]]", "{x: 1, 2: y}", "x = 1; y = x + 1; f(y)", "AND [a, b] || x in [1, 2]",
    "- (x - y) - - z", "x == y ? f(x) : [g(x)]", "x", "f()", "[]", "{}", "1 + 2", "true", "x not in y", "(c ? 1 : 2) ? x : - y", "f(g(x), {1: [y]})", "a; b", "x = y = 3",
    "! x !", "++ x ++", "x ! + ! y", "not ++ x",
    # names that collide under common string hashes must still get their own descriptors
    "tierAa + tierBB * rateAa(1) - rateBB(2)", "x; hidden; y", "f(); g(x); 3", "a; b; c; d",
    # operands whose own text looks like a template placeholder, a format directive or a marker
    "'{rhs}' == label", "'{lhs}' + '{op}' + '{rhs}'", "c ? '{rhs}' : '{lhs}'", "['%s', '{}', '{0}', '$1']", "f('{rhs}', '\\1') ; '{op}'", "{'{rhs}': '{lhs}'}", "- '{rhs}' ++", "'<B1|+|x|y>' + x", "x in ['|', '#', '~']",
    # names outside ASCII
    "é + ünit.price * ärea(1)", "ärea(é) ; ünit.price", "[é, {é: ünit.price}]", "日本 == é ? ärea() : 日本", "- é ++",
    # left-leaning chains in which an operator returns after another one (X .. Y .. X), and the same to the right
    "a - b + c - d", "a + b - c + d", "(a * b - c) * d", "a - b - c + d - e + f", "a == b != c == d", "a = b += c = d", "a && b || c && d || e", "x - (y + (z - w))", "f(a) - g(b) + f(c) - g(d)",
    # prefix / postfix operators applied directly to literals of every kind
    "- 10 * x > - y", "x * - 10", "+ 5", "- 0.5 - - 0.5", "! true", "not false", "- 'a'", "7 ++", "[- 1, + 2, ! false]", "f(- 3)", "- 1 ? - 2 : - 3",
    # operators that are registered only AFTER the first batch of descriptors (a descriptor may be filed before its operator exists)
    "neg2 x + y", "x pct2 * 2", "x <+> y - neg2 z", "f(x <+> 1) pct2", "neg2 (x <+> y) pct2",
    # deep trees: descriptors apply at every depth
    "x" + " + 1" * 140, "[" * 130 + "x" + "]" * 130, "- " * 135 + "x", "f(" * 132 + "x" + ")" * 132, "x" + " ++" * 1 + " + y" * 129,
]


def norm(d):
    """which quote character surrounds a string literal is expr()'s choice (C12), not part of this property"""
    return d.replace("'", '"') if isinstance(d, str) else d


def parse_battery(table):
    out = []
    for s in BATTERY:
        try:
            t = ref.rparse(ref.rtok(s, table), table)
        except (ref.Abstain, ref.LexError, ref.ParseError):
            continue
        out.append((s, t))
    return out


def config_steps(rnd, spec):
    """spec: list of batches; batch = list of (kind, name). Returns (steps, plan) where plan lists, per
    describe step, the registry state (dict) it must be judged against."""
    table = ref.OpTable()
    table.postfix.add("!")
    table.prefix.add("++")
    table.prefix.add("neg2")
    table.postfix.add("pct2")
    table.infix["<+>"] = (105, "LEFT", "CALC")
    late = [{"op": "reg_prefix", "name": "neg2", "beh": {"id": 3, "ret": "arg0"}}, {"op": "reg_postfix", "name": "pct2", "beh": {"id": 4, "ret": "arg0"}},
            {"op": "reg_infix", "name": "<+>", "prec": 105, "type": "CALC", "assoc": "LEFT", "beh": {"id": 5, "ret": "arg0"}}]
    pre = [{"op": "reg_postfix", "name": "!", "beh": {"id": 1, "ret": "arg0"}}, {"op": "reg_prefix", "name": "++", "beh": {"id": 2, "ret": "arg0"}}]
    bat = parse_battery(table)
    steps = list(pre)
    plan = [None] * len(pre)
    reg = {}
    nid = 10
    def describe_all():
        for s, t in bat:
            steps.append({"op": "parse", "text": s, "want": "ad"})
            plan.append((s, t, dict(reg)))
    describe_all()
    for batch in spec:
        for kind, name in batch:
            nid += 1
            if kind in ("REFERENCE", "FUNCTION") and rnd.random() < 0.08:
                # a descriptor that hides its node (renders as the empty string)
                steps.append({"op": "desc", "kind": kind, "name": name or "", "id": 0})
                plan.append(None)
                reg[(kind, name)] = 0
                continue
            steps.append({"op": "desc", "kind": kind, "name": name or "", "id": nid})
            plan.append(None)
            reg[(kind, name) if name is not None else (kind,)] = nid
        if late:
            steps.extend(late)
            plan.extend([None] * len(late))
            late = []
        describe_all()
    return steps, plan


def spec_for(rnd, how, arg):
    def names(kind):
        return NAMES.get(kind, [None])
    if how == "single":
        k = KINDS[arg]
        return [[(k, n) for n in names(k)[:2]], [(k, names(k)[0])]]
    if how == "pair":
        a, b = arg
        return [[(a, names(a)[0])], [(b, names(b)[0])], [(a, names(a)[-1]), (b, names(b)[-1])]]
    if how == "samesym":
        combos = [
            [[("UNARY", "-")], [("BINARY", "-")]], [[("BINARY", "-")], [("UNARY", "-")]], [[("UNARY", "!")], [("POSTFIX", "!")]], [[("POSTFIX", "!")], [("UNARY", "!")]],
            [[("POSTFIX", "++")], [("UNARY", "++")]], [[("UNARY", "++")], [("POSTFIX", "++")]], [[("FUNCTION", "x")], [("REFERENCE", "x")]], [[("REFERENCE", "f")], [("FUNCTION", "f")]],
            [[("REFERENCE", "x")], [("REFERENCE", "x")]], [[("BINARY", "+")], [("BINARY", "+")], [("BINARY", "+")]], [[("FUNCTION", "min")], [("REFERENCE", "min")], [("UNARY", "not"), ("BINARY", "in")]],
        ]
        combos += [[[("REFERENCE", "tierBB"), ("FUNCTION", "rateBB")]], [[("REFERENCE", "hidden")], [("CHAIN", None)]]]
        return combos[arg % len(combos)]
    if how == "many":
        # 5000 registrations for distinct names of every named kind after the ones the battery uses: nothing registered earlier may go
        first = [[("REFERENCE", "x"), ("FUNCTION", "f"), ("BINARY", "+"), ("UNARY", "-"), ("LIST", None), ("TERNARY", None)]]
        bulk = [[(["REFERENCE", "FUNCTION", "BINARY", "UNARY", "POSTFIX"][i % 5], "bulk%d" % i) for i in range(j * 1000, (j + 1) * 1000)] for j in range(5)]
        return first + bulk
    # random subsets in 1-3 batches
    keys = [(k, n) for k in KINDS for n in names(k)]
    batches = []
    for _ in range(rnd.randint(1, 3)):
        batches.append(rnd.sample(keys, rnd.randint(1, 8)))
    return batches


def concurrent_config(rnd, wd, name, profile, part):
    """describe() on two threads while a third keeps re-registering the descriptor of one key: once the first
    registration has returned, every rendering of that key must show *some* registered id, never the default,
    and ids never go backwards within a thread"""
    kind, nm, prog, pat = rnd.choice([("REFERENCE", "x", "x + y", "<R%d|x>"), ("FUNCTION", "f", "f(y) + 1", "<F%d|f|y>"), ("BINARY", "+", "y + z", "<B%d|+|y|z>"), ("UNARY", "-", "- y", "<U%d|-|y>"), ("LIST", "", "[y]", "<L%d|y>")])
    n_reg = 300
    steps = [{"op": "desc", "kind": kind, "name": nm, "id": 1000}]
    writer = [{"op": "desc", "kind": kind, "name": nm, "id": 1001 + i} for i in range(n_reg)]
    reader = [{"op": "parse", "text": prog, "want": "d"} for _ in range(n_reg * 2)]
    steps.append({"op": "threads", "plans": [writer, reader, list(reader)], "jitter_ns": [0, 0, 500]})
    run = common.run_vexec(steps, wd, name, profile, timeout=300)
    kind_, detail = common.crash_verdict(run, "concurrent describe")
    if kind_ is not None or not run.ended:
        if kind_ in ("signal", "hang", "deadlock"):
            part["violations"].append({"sig": ["crash", kind_, "concurrent"], "what": detail, "replay": None})
        else:
            part["inconclusive"].append("%s %s" % (kind_, detail))
        return
    th = run.steps()[1].get("threads", [])
    import re
    rx = re.compile(re.escape(pat).replace("%d", "([0-9]+)"))
    for recs in th[1:]:
        if not isinstance(recs, list):
            part["violations"].append({"sig": ["thread-panicked", "concurrent"], "what": "a describing thread panicked", "replay": None})
            continue
        last = 0
        for r in recs:
            part["evaluations"] += 1
            part["counts"]["concurrent_describes"] = part["counts"].get("concurrent_describes", 0) + 1
            d = r.get("desc", "")
            m = rx.search(d or "")
            if not m:
                part["violations"].append({"sig": ["default-during-reregistration", kind], "what": "while the %s descriptor of `%s` was being re-registered on another thread (a descriptor was registered at all times), describe() of `%s` rendered %r: no registered descriptor was used" % (kind, nm, prog, d), "replay": None})
                return
            i = int(m.group(1))
            if i < last:
                part["violations"].append({"sig": ["descriptor-went-backwards", kind], "what": "describe() used descriptor #%d after #%d" % (i, last), "replay": None})
                return
            last = i
    part["classes"].add("concurrent:" + kind)


def concurrent_set_config(rnd, wd, name, profile, part):
    """several threads register descriptors for DIFFERENT (kind, name) keys at the same moments (spin rendezvous before each call);
    once all calls have returned, describe() renders every one of those keys with the descriptor registered for it"""
    T = rnd.choice([2, 3, 4, 8])
    K = rnd.choice([4, 8, 16])
    plans, checks = [[] for _ in range(T)], []
    for k in range(K):
        for t in range(T):
            kind = ["REFERENCE", "FUNCTION", "REFERENCE", "BINARY"][(t + k) % 4] if rnd.random() < 0.5 else "REFERENCE"
            did = 3000 + k * 8 + t
            if kind == "BINARY":
                nm = ["+", "-", "*", "/", "%", "==", "!=", "<", ">", "<=", ">=", "&&", "||", "<<", ">>", "^", "|", "&", "in", "=", "+=", "-=", "*=", "/=", "%=", "beginWith", "endWith", ">>=", "<<=", "|=", "&=", "^="][(k * 8 + t) % 32]
                if any(c[0] == "BINARY" and c[1] == nm for c in checks):
                    kind = "REFERENCE"
            if kind == "REFERENCE":
                nm = "dv%dx%d" % (t, k)
                prog, want = "%s + 1" % nm, "<R%d|%s>" % (did, nm)
            elif kind == "FUNCTION":
                nm = "df%dx%d" % (t, k)
                prog, want = "%s(y)" % nm, "<F%d|%s|y>" % (did, nm)
            else:
                prog, want = "p %s q" % nm, "<B%d|%s|p|q>" % (did, nm)
            plans[t].append({"op": "meet", "k": k, "n": T})
            plans[t].append({"op": "desc", "kind": kind, "name": nm, "id": did})
            checks.append((kind, nm, prog, want))
    steps = [{"op": "parse", "text": "1 + y", "want": "d"}, {"op": "threads", "plans": plans}] + [{"op": "parse", "text": c[2], "want": "d"} for c in checks]
    run = common.run_vexec(steps, wd, name, profile, timeout=300)
    kind_, detail = common.crash_verdict(run, "concurrent descriptor registration")
    if kind_ is not None or not run.ended:
        if kind_ in ("signal", "hang", "deadlock"):
            part["violations"].append({"sig": ["crash", kind_, "concset"], "what": detail, "replay": {"steps": steps}})
        else:
            part["inconclusive"].append("%s %s" % (kind_, detail))
        return
    if run.gave_up:
        part["inconclusive"].append("concurrent descriptor registration: %d rendezvous timed out (machine overloaded); run discarded" % run.gave_up)
        return
    for (kind, nm, prog, want), r in zip(checks, run.steps()[2:]):
        part["evaluations"] += 1
        part["counts"]["concurrent_registrations_checked"] = part["counts"].get("concurrent_registrations_checked", 0) + 1
        if want in (r.get("desc") or ""):
            part["classes"].add("concset:%s:T%d" % (kind, T))
        else:
            part["violations"].append({"sig": ["concurrent-descriptor-registration-lost", kind], "what": "%d threads each registered %d descriptors for different keys at the same moments; all calls returned, yet describe() of `%s` is %r: the %s descriptor registered for `%s` (marker %s) is not used" % (T, K, prog, r.get("desc"), kind, nm, want), "replay": {"steps": steps}})


def run_shard(desc):
    si, items, profile = desc
    rnd = common.rng(PROP, si)
    wd = common.workdir(PROP)
    part = {"evaluations": 0, "classes": set(), "violations": [], "samples": [], "abstained": 0, "inconclusive": [], "counts": {"configurations": 0, "describes": 0}}
    for ci, (how, arg) in enumerate(items):
        if how == "concset":
            concurrent_set_config(rnd, wd, "cset-%d-%d" % (si, ci), profile, part)
            part["counts"]["configurations"] += 1
            continue
        if how == "concurrent":
            concurrent_config(rnd, wd, "conc-%d-%d" % (si, ci), profile, part)
            part["counts"]["configurations"] += 1
            continue
        spec = spec_for(rnd, how, arg)
        steps, plan = config_steps(rnd, spec)
        run = common.run_vexec(steps, wd, "cfg-%d-%d" % (si, ci), profile)
        kind_, detail = common.crash_verdict(run, "config")
        if kind_ is not None or not run.ended:
            if kind_ in ("signal", "hang", "deadlock"):
                part["violations"].append({"sig": ["crash", kind_], "what": "configuration %s: %s" % (spec, detail), "replay": {"steps": steps}})
            else:
                part["inconclusive"].append("%s %s" % (kind_, detail))
            continue
        part["counts"]["configurations"] += 1
        recs = run.by_index()
        for i, pl in enumerate(plan):
            if pl is None or i not in recs:
                continue
            s, t, reg = pl
            r = recs[i]
            if r.get("p") != "ok" or r.get("ast") != t:
                continue
            part["evaluations"] += 1
            part["counts"]["describes"] += 1
            exp = ref.describe(t, reg)
            if "desc_panic" in r:
                part["violations"].append({"sig": ["describe-panic"], "what": "describe() of `%s` panicked: %s" % (s, r["desc_panic"]), "replay": {"steps": steps[: i + 1]}})
            elif norm(r.get("desc")) == norm(exp):
                for x in gen.subtrees(t):
                    key = {"un": ("UNARY", x[1]), "bin": ("BINARY", x[1]), "post": ("POSTFIX", x[2] if x[0] == "post" else None), "tern": ("TERNARY",), "fn": ("FUNCTION", x[1]), "ref": ("REFERENCE", x[1]),
                           "list": ("LIST",), "map": ("MAP",), "stmt": ("CHAIN",)}.get(x[0])
                    if key:
                        part["classes"].add("%s:%s" % ("/".join(str(k) for k in key), "registered" if key in reg else "default"))
                if len(part["samples"]) < 2 and reg:
                    part["samples"].append({"registered": ["/".join(str(x) for x in k) for k in reg], "program": s, "describe": r.get("desc")})
            elif len(part["violations"]) < 40:
                # which key is off? find the first registered/unregistered key whose marker is wrong
                part["violations"].append({"sig": ["wrong-rendering", how, sorted({k[0] for k in reg})[:4]],
                                           "what": "with descriptors registered for %s, describe() of `%s` is %r, expected %r" % (sorted("/".join(str(x) for x in k) + "#%d" % v for k, v in reg.items()), s, r.get("desc"), exp),
                                           "replay": {"steps": steps[: i + 1], "expected": exp}})
    part["classes"] = sorted(part["classes"])
    return part


def run(rep, tier):
    rep.rule = RULE
    rep.assumptions = ["marker descriptors are pure functions of their arguments; literals render as in expr() (strings are kept out of the battery)", "registration is process-global, so every configuration runs in its own process"]
    common.build("verifdbg")
    common.build("release")
    items = [("single", i) for i in range(9)] + [("pair", p) for p in itertools.combinations(KINDS, 2)] + [("samesym", i) for i in range(13)]
    items += [("random", i) for i in range(300 if tier == "quick" else 10000)]
    items += [("concurrent", i) for i in range(64 if tier == "quick" else 1500)]
    items += [("concset", i) for i in range(64 if tier == "quick" else 1500)]
    items += [("many", 0), ("many", 1)]
    nsh = 32 if tier == "quick" else 64
    shards = [(i, items[i::nsh], "release" if i % 2 else "verifdbg") for i in range(nsh)]
    for part in common.pmap(run_shard, shards):
        rep.merge(part)
    rep.extra["exhaustive"] = True
    rep.extra["exhaustive_space"] = "all 9 single-kind and all 36 kind-pair configurations"
    rep.floor = 2000


def replay(path):
    d = json.load(open(path))
    run = common.run_vexec(d["replay"]["steps"], common.workdir(PROP, "replay"), "replay", "verifdbg")
    last = run.steps()[-1]
    print(json.dumps(last, ensure_ascii=False))
    if norm(last.get("desc")) != norm(d["replay"].get("expected")):
        print("VIOLATION property=%s replay=%s" % (PROP, path))
        return 1
    return 0
