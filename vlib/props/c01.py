"""C01 — parsing is total: every string gives Ok or Err, never a panic, abort or hang; every returned AST renders.
Monitors: catch_unwind around every phase (tokenize, parse, expr, describe, exec), crash journal for deaths on
a signal (stack exhaustion), CPU-budget watchdog for non-termination."""
import json
from .. import common, gen, ref

PROP = "C01"
RULE = ("bounded-exhaustive strings over a 42-character class alphabet (every class and transition the tokenizer distinguishes, incl. 2/3/4-byte "
        "characters) - each parsed, rendered with expr()/describe() and executed on an empty and a populated context; random token soup and "
        "character-level corruptions of valid programs up to ~400 bytes; a depth ladder of 13 recursive shape families (one process per rung, 8 MiB "
        "stack); flat inputs up to 4 MiB. distinct class = (workload, input length / family, depth rung, outcome class)")
ALPHABET = ["+", "-", "=", "!", "<", ">", "&", "|", "*", "/", "%", "^", "?", ":", "(", ")", "[", "]", "{", "}", "0", "1", ".", "e", "'", "\"", ";", ",", " ", "\n", "\r", "\t",
            "i", "n", "t", "A", "_", "é", "€", "😀", " ", "#"]
ALPHABET = ALPHABET[:32] + ["i", "n", "t", "_", "é", "😀", "\u00a0", "\x0c", "\u0120", "\u0128"]  # 42 symbols

FAMILIES = {
    "parens": lambda n: "(" * n + "1" + ")" * n,
    "brackets": lambda n: "[" * n + "1" + "]" * n,
    "braces": lambda n: "{1:" * n + "1" + "}" * n,
    "calls": lambda n: "f(" * n + "1" + ")" * n,
    "minus": lambda n: "- " * n + "1",
    "not": lambda n: "not " * n + "true",
    "bang": lambda n: "!" * n + "true",
    "assign": lambda n: "a=" * n + "1",
    "tern-else": lambda n: "c?1:" * n + "1",
    "tern-then": lambda n: "c?" * n + "1" + ":1" * n,
    "plus-chain": lambda n: "1" + "+1" * n,
    "names": lambda n: "a " * n,
    "mixed": lambda n: "".join(["(", "[", "f(", "- ", "{1:"][i % 5] for i in range(n)) + "1" + "".join([")", "]", ")", "", "}"][i % 5] for i in reversed(range(n))),
}
RUNGS = [10, 100, 1000, 3000, 10000, 100000]
EVAL_FAMILIES = {
    "and-true": lambda n: " && ".join(["1 < 2"] * n),
    "or-false": lambda n: " || ".join(["2 < 1"] * n),
    "and-or-vars": lambda n: " ".join(["t"] + [("&& t" if i % 3 else "|| f") for i in range(n)]),
    "and-right": lambda n: "t && (" * n + "t" + ")" * n,
    "tern-true": lambda n: "t ? (" * n + "1" + ") : 0" * n,
    "tern-chain": lambda n: "f ? 0 : " * n + "1",
    "nested-min": lambda n: "min(" * n + "1" + ", 2)" * n,
    "in-lists": lambda n: " && ".join(["%d in [%s]" % (i, ", ".join(str(j) for j in range(i + 1))) for i in range(n)]),
    "assign-chain": lambda n: "a = 1; " + "a = a + a - a; " * n + "a",
    "list-of-lists": lambda n: "[" + ", ".join(["[" + ", ".join(["a"] * 8) + "]"] * n) + "] == [" + ", ".join(["[" + ", ".join(["1"] * 8) + "]"] * n) + "]",
    "and-list": lambda n: "AND [" + ", ".join(["OR [f, t]"] * n) + "]",
    "not-in": lambda n: " && ".join(["3 not in [1, 2]"] * n),
}


def bucket(depth):
    return "<=100" if depth <= 100 else ("<=1000" if depth <= 1000 else ">1000")


ALIAS_CHARS = ["\u0120", "\u2120", "\u010a", "\u0109", "\u010d", "\u0128", "\u0129", "\u015b", "\u015d", "\u017b", "\u017d", "\u012c", "\u013b", "\u0122", "\u0127", "\ufeff", "\u2028", "\u0085", "\u3000"]


def soup(rnd):
    frags = ["1", "2.5", "a", "b1", "'s'", "\"q\"", "true", "f(", "(", ")", "[", "]", "{", "}", ",", ";", ":", "?", "+", "-", "*", "/", "%", "<<", ">>=", "==", "!=", "!", "not", "in", "AND", "OR",
             "beginWith", "++", "--", "=", "+=", "&&", "||", "é", "😀", " ", "'", "\"", ".", "e", "1e", "1.2.3", "_", "#", "\\", "\x00", "\x0b", "€",
             # escape-looking text inside and outside string literals (the language defines no escapes: they are plain characters)
             "'\\uD800'", '"\\uDBFF\\uDFFF"', "'\\u0041'", "'\\x41\\0'", "'\\u{1F600}'", "'\\U0010FFFF'", "\\uD83D", "\\u", "\\x", "'%s{}{0}'", "'\\", "\\'"]
    n = rnd.randint(1, 60)
    out = []
    if rnd.random() < 0.05:
        out.append("\ufeff")  # a byte order mark as the very first character
    for _ in range(n):
        out.append(rnd.choice(frags) if rnd.random() < 0.97 else rnd.choice(ALIAS_CHARS))
        g = rnd.random()
        if g < 0.5:
            out.append(rnd.choice([" ", "\t", "\n", "\r", "  "]))
        elif g < 0.55:
            out.append(rnd.choice(["é", "😀", " "]))
    return "".join(out)


def numlit_inputs():
    """number-literal-shaped words: mantissas x exponent markers x signs x exponent digit strings at the boundaries of every integer
    width a number parser may keep an exponent or a scale in (and of Decimal's 28/29 digits), alone and inside small programs"""
    mants = ["1", "0", "1.5", "0.25", "10", "1.", ".5", "0.0000000000000000000000000001", "79228162514264337593543950335", "7.9228162514264337593543950335", "00", "1.50"]
    bounds = [0, 1, 2, 3, 27, 28, 29, 30, 38, 39, 127, 128, 255, 256, 308, 309, 32767, 32768, 65535, 65536, 2147483647, 2147483648, 4294967293, 4294967294, 4294967295, 4294967296,
              4294967297, 9223372036854775807, 9223372036854775808, 18446744073709551615, 18446744073709551616, 10 ** 30, 10 ** 40]
    out = []
    for m in mants:
        for e in ("e", "E"):
            for sg in ("", "+", "-"):
                for b in bounds:
                    out.append("%s%s%s%d" % (m, e, sg, b))
    base = list(out)
    for i, w in enumerate(base):
        if i % 7 == 0:
            out.append(["1 + %s", "f(%s)", "- %s", "[%s]", "x = %s; x", "%s.5", "%s e1", "%s % 3", "'a' + %s"][i // 7 % 9].replace("%s", w))
    out += ["1e", "1e+", "1e-", "1ee5", "1e5e5", "0e.3", "1e1.5", "1.e5", "1_000", "0x10", "1e-0", "1E", "9" * 400, "0." + "0" * 400 + "1", "1" + "0" * 400 + "e-400", "1e" + "9" * 400, "1e-" + "9" * 400]
    return out


def corruptions(rnd, s):
    out = []
    for _ in range(3):
        t = s
        for _ in range(rnd.randint(1, 3)):
            if not t:
                break
            i = rnd.randrange(len(t))
            k = rnd.random()
            if k < 0.25:
                t = t[:i] + t[i + 1:]
            elif k < 0.5:
                t = t[:i] + t[i] + t[i:]
            elif k < 0.8:
                t = t[:i] + rnd.choice(ALPHABET + ["€", "#", " "] + ALIAS_CHARS) + t[i:]
            else:
                j = rnd.randrange(len(t))
                t = t[:min(i, j)] + t[max(i, j):]
        out.append(t)
    out.append(s[: rnd.randrange(len(s) + 1)])
    return out


def idx_to_input(alphabet, length, idx, join=""):
    k = len(alphabet)
    syms = []
    for _ in range(length):
        syms.append(alphabet[idx % k])
        idx //= k
    return join.join(syms)


def viol_from_record(r, workload):
    kind = r["viol"]
    loc = r["detail"].split(" @ ")[-1] if " @ " in r["detail"] else ""
    f = loc.split(":")[0].replace("/repo/", "")
    msg = r["detail"].split(" @ ")[0]
    import re
    msg = re.sub(r"`[^`]*`|'[^']*'|\"[^\"]*\"", "_", msg)
    msg = re.sub(r"[0-9]+", "N", msg)[:60]
    return {"sig": [kind, f, msg], "what": "%s on input %r: %s" % (kind, r["input"], r["detail"]), "replay": {"steps": [{"op": "exec", "ctx": 0, "text": r["input"], "want": "ed"}, {"op": "tokenize", "text": r["input"]}]}}


def run_shard(desc):
    kind, si, nshards, arg, profile = desc
    rnd = common.rng(PROP, kind, si)
    wd = common.workdir(PROP)
    part = {"evaluations": 0, "classes": set(), "violations": [], "samples": [], "abstained": 0, "inconclusive": [], "counts": {}}
    C = part["counts"]
    if kind == "enum":
        step = {"op": "enum", "alphabet": ALPHABET, "minlen": 0, "maxlen": arg, "shard": si, "nshards": nshards, "join": "", "tok": True, "exec": True, "rt": False, "sample": 0, "cpu_budget_s": 20}
        recs, events, extra = common.run_batch([step], wd, "enum-%d-%d-%s" % (arg, si, profile), profile, timeout=3600, max_restarts=0)
        en = (recs[0] or {}).get("enum", {})
        part["evaluations"] += en.get("n", 0)
        for k in ("n", "accepted", "tok_ok", "tok_err", "exec_ok", "exec_err"):
            C["enum_" + k] = en.get(k, 0)
        if en:
            part["classes"].add("enum:len<=%d:accepted" % arg if en.get("accepted") else "enum:none-accepted")
            part["classes"].add("enum:rejected")
            part["samples"].append({"workload": "exhaustive strings", "alphabet_size": len(ALPHABET), "maxlen": arg, "shard": si, "inputs": en.get("n"), "accepted": en.get("accepted")})
        for r in extra:
            if "viol" in r and r["viol"].startswith("panic"):
                part["violations"].append(viol_from_record(r, "enum"))
        for kind_, detail, k in events:
            if kind_ in ("signal", "hang", "deadlock"):
                part["violations"].append({"sig": [kind_, "enum"], "what": "exhaustive strings, shard %d: %s" % (si, detail), "replay": None})
            else:
                part["inconclusive"].append("%s: %s" % (kind_, detail))
    elif kind == "tokenum":
        alphabet = ["1", "a", "not", "in", "+", "*", "(", ")", "[", "'x", "1.2.3", "1e5", "é", "f", ",", ";", "?", ":", "=", "!", "++", "\"s\""]
        if arg >= 100:
            # one token longer over a 15-symbol alphabet (operand, `not`, operators, delimiters, calls, unterminated string, malformed number)
            alphabet, arg = ["1", "a", "not", "in", "+", "(", ")", "'x", "1e", "f", ",", "?", ":", "=", "++"], arg - 100
        step = {"op": "enum", "alphabet": alphabet, "minlen": 0, "maxlen": arg, "shard": si % nshards, "nshards": nshards, "join": " ", "glue_call": True, "tok": True, "exec": True, "rt": False, "sample": 0, "cpu_budget_s": 20}
        recs, events, extra = common.run_batch([step], wd, "tokenum-%d-%d-%d-%s" % (len(alphabet), arg, si, profile), profile, timeout=3600, max_restarts=0)
        en = (recs[0] or {}).get("enum", {})
        part["evaluations"] += en.get("n", 0)
        C["tokenum_n"] = C.get("tokenum_n", 0) + en.get("n", 0)
        if en:
            part["classes"].add("tokenum:%d-symbols:len<=%d" % (len(alphabet), arg))
        for r in extra:
            if "viol" in r and r["viol"].startswith("panic"):
                part["violations"].append(viol_from_record(r, "tokenum"))
        for kind_, detail, k in events:
            if kind_ in ("signal", "hang", "deadlock"):
                part["violations"].append({"sig": [kind_, "tokenum"], "what": "token sequences, shard %d: %s" % (si, detail), "replay": None})
            else:
                part["inconclusive"].append("%s: %s" % (kind_, detail))
    elif kind == "arith":
        # execute() must not unwind on the arithmetic fault product either (C04 judges the values, here only totality)
        from . import c04
        items = [x for i, x in enumerate(c04.product()) if i % nshards == si]
        steps = []
        for i, (t, vars_, label) in enumerate(items):
            steps.append({"op": "ctx", "id": i, "vars": vars_})
            steps.append({"op": "exec", "ctx": i, "text": ref.Renderer().render(t), "nosnap": True})
        recs, events, _ = common.run_batch(steps, wd, "arith-%d-%s" % (si, profile), profile, timeout=1200)
        for i, (t, vars_, label) in enumerate(items):
            r = recs[2 * i + 1]
            if r is None:
                continue
            part["evaluations"] += 1
            C["arith"] = C.get("arith", 0) + 1
            res = r.get("res")
            if isinstance(res, dict) and "panic" in res:
                part["violations"].append(viol_from_record({"viol": "panic:exec", "input": steps[2 * i + 1]["text"] + " with " + json.dumps(vars_), "detail": "%s @ %s" % (res.get("panic"), res.get("loc"))}, "arith"))
            else:
                part["classes"].add("arith:%s" % label)
        for kind_, detail, k in events:
            if kind_ in ("signal", "hang", "deadlock"):
                part["violations"].append({"sig": [kind_, "arith"], "what": detail, "replay": None})
            else:
                part["inconclusive"].append("%s: %s" % (kind_, detail))
    elif kind in ("soup", "numlit"):
        tg = gen.TreeGen(rnd)
        inputs = [x for i, x in enumerate(numlit_inputs()) if i % nshards == si % nshards] if kind == "numlit" else []
        for _ in range(arg if kind == "soup" else 0):
            if rnd.random() < 0.5:
                inputs.append(soup(rnd))
            else:
                t = tg.program(d=rnd.randint(1, 4))
                s = ref.join_tokens(ref.Renderer(rnd=rnd, extra_parens=0.1).tokens(t), rnd=rnd, compact=rnd.random())
                inputs.extend(corruptions(rnd, s))
        steps = [{"op": "ctx", "id": 0, "vars": {"x": ["n", "3", 0], "a": ["b", True], "b": ["s", "s"]}}]
        for s in inputs:
            steps.append({"op": "exec", "ctx": 0, "text": s, "want": "ed", "nosnap": True})
            steps.append({"op": "tokenize", "text": s})
        recs, events, _ = common.run_batch(steps, wd, "%s-%d" % (kind, si), profile, timeout=1200)
        for i, s in enumerate(inputs):
            r, tk = recs[1 + 2 * i], recs[2 + 2 * i]
            if r is None:
                continue
            part["evaluations"] += 1
            C[kind] = C.get(kind, 0) + 1
            pan = None
            for key, phase in (("ppanic", "parse"), ("expr_panic", "expr"), ("desc_panic", "describe")):
                if key in r:
                    pan = (phase, r[key])
            if isinstance(r.get("res"), dict) and "panic" in r["res"]:
                pan = ("exec", r["res"])
            if tk is not None and "tpanic" in tk:
                pan = ("tokenize", tk["tpanic"])
            if pan:
                part["violations"].append(viol_from_record({"viol": "panic:" + pan[0], "input": s, "detail": "%s @ %s" % (pan[1].get("panic"), pan[1].get("loc"))}, "soup"))
            else:
                part["classes"].add("%s:len%d:%s" % (kind, min(len(s) // 40, 10), r.get("p")))
                if len(part["samples"]) < 1:
                    part["samples"].append({"workload": "soup/corruption", "input": s[:120], "outcome": r.get("p")})
        for kind_, detail, k in events:
            if kind_ in ("signal", "hang", "deadlock"):
                s = inputs[(k - 1) // 2] if 0 < k <= 2 * len(inputs) else "?"
                part["violations"].append({"sig": [kind_, "soup"], "what": "input %r: %s" % (s[:300], detail), "replay": {"steps": [{"op": "exec", "ctx": 0, "text": s, "want": "ed"}]}})
            else:
                part["inconclusive"].append("%s: %s" % (kind_, detail))
    elif kind == "ladder":
        # one family per shard, rungs in increasing order; the CPU budget of a rung is derived from the measured
        # cost of the previous rung (polynomial growth up to cubic in the depth is tolerated: quadratic-but-
        # terminating behaviour is not a violation), never from wall time
        fam, rungs = arg
        prev = None  # (depth, cpu seconds)
        C["ladder_rungs"] = 0
        for depth in rungs:
            s = FAMILIES[fam](depth)
            budget = 60
            if prev is not None:
                budget = int(max(60, 30 * max(prev[1], 0.002) * (depth / prev[0]) ** 3))
            steps = [{"op": "parse", "text": s, "want": "ed", "cpu_budget_s": budget}, {"op": "exec", "text": s}]
            run = common.run_vexec(steps, wd, "ladder-%s-%d" % (fam, depth), profile, stack_mb=8, timeout=min(budget, 3000) + 600)
            kind_, detail = common.crash_verdict(run, "ladder")
            part["evaluations"] += 1
            C["ladder_rungs"] += 1
            if kind_ is None and run.ended:
                st = run.steps()
                cost = sum((x["t1"] - x["t0"]) / 1e9 for x in st if "t0" in x)
                prev = (depth, cost)
                pan = [x for x in st if "ppanic" in x or "expr_panic" in x or "desc_panic" in x or (isinstance(x.get("res"), dict) and "panic" in x["res"])]
                if pan:
                    part["violations"].append({"sig": ["panic", "ladder", fam], "what": "family %s at depth %d panicked: %s" % (fam, depth, json.dumps(pan[0])[:300]), "replay": {"family": fam, "depth": depth}})
                else:
                    part["classes"].add("ladder:%s:%d:%s" % (fam, depth, st[0].get("p") if st else "?"))
                    if depth == 1000:
                        part["samples"].append({"workload": "depth ladder", "family": fam, "depth": depth, "outcome": st[0].get("p") if st else None, "seconds": round(cost, 3)})
            elif kind_ == "signal":
                part["violations"].append({"sig": ["stack-exhaustion", fam, bucket(depth)], "what": "shape family `%s` (e.g. %r) kills the process at nesting depth %d: %s" % (fam, FAMILIES[fam](3), depth, detail),
                                           "replay": {"family": fam, "depth": depth}, "depth": depth})
                break  # deeper rungs abort a fortiori
            elif kind_ in ("hang", "deadlock"):
                part["violations"].append({"sig": [kind_, "ladder", fam, bucket(depth)], "what": "shape family `%s` at depth %d (%d bytes): %s (budget %ds derived from the previous rung %s)" % (fam, depth, len(s), detail, budget, prev), "replay": {"family": fam, "depth": depth}})
                break
            else:
                part["inconclusive"].append("ladder %s/%d: %s %s" % (fam, depth, kind_, detail))
                break
    elif kind == "execpool":
        # execute() is total as well: statement programs with every kind of assignment target (incl. lists of names against shorter /
        # longer / empty right sides), ill-typed operands and registered-name overrides, on populated contexts; only panics / hangs
        from . import c06
        g = c06.AsgGen(rnd)
        tg = gen.TypedGen(rnd, ill=0.3, edge=0.3)
        steps, texts = [], []
        for i in range(arg):
            if rnd.random() < 0.6:
                t = g.program()
                vars_ = g.init_ctx()
            else:
                t = tg.gen(rnd.choice("ANBSL"), rnd.randint(1, 4))
                vars_ = tg.ctx_json()
            if rnd.random() < 0.3:
                names_ = rnd.sample(c06.VARS, rnd.randint(1, 3))
                t = ["stmt", [["bin", rnd.choice(gen.SETTER_OPS), ["list", [["ref", v] for v in names_]], ["list", [gen.num_lit(*rnd.choice(gen.NUM_SMALL)) for _ in range(rnd.choice([0, 1, len(names_) - 1, len(names_), len(names_) + 1]))]]], t]]
            text = ref.Renderer(rnd=rnd).render(t) if not (t[0] == "stmt" and not t[1]) else ""
            steps.append({"op": "ctx", "id": i, "vars": vars_})
            steps.append(dict({"op": "exec", "ctx": i, "text": text, "nosnap": True}, **({"via": "execute"} if i % 2 else {})))
            texts.append(text)
        recs, events, _ = common.run_batch(steps, wd, "execpool-%d-%s" % (si, profile), profile, timeout=1200)
        for i, text in enumerate(texts):
            r = recs[2 * i + 1]
            if r is None:
                continue
            part["evaluations"] += 1
            C["execpool"] = C.get("execpool", 0) + 1
            res = r.get("res")
            if (isinstance(res, dict) and "panic" in res) or "ppanic" in r:
                part["violations"].append(viol_from_record({"viol": "panic:exec", "input": text, "detail": "%s @ %s" % ((res or {}).get("panic") or r.get("ppanic"), (res or {}).get("loc", ""))}, "execpool"))
            else:
                part["classes"].add("execpool:%s" % ("ok" if isinstance(res, dict) and "ok" in res else "err"))
        for kind_, detail, k in events:
            if kind_ in ("signal", "hang", "deadlock"):
                part["violations"].append({"sig": [kind_, "execpool"], "what": "executing `%s`: %s" % (texts[k // 2][:200] if k // 2 < len(texts) else "?", detail), "replay": None})
            else:
                part["inconclusive"].append("%s: %s" % (kind_, detail))
    elif kind == "evalcost":
        # programs of modest size whose evaluation (not their nesting depth) could blow up: chains that a careless short-circuit,
        # re-evaluation or copy would make exponential or quadratic. One process per (family, size), 60 s CPU budget each.
        fam, n_ = arg
        s = EVAL_FAMILIES[fam](n_)
        steps = [{"op": "parse", "text": s, "want": "ed", "cpu_budget_s": 60}, {"op": "exec", "text": s, "cpu_budget_s": 60}, {"op": "ctx", "id": 1, "vars": {"a": ["n", "1", 0], "t": ["b", True], "f": ["b", False]}}, {"op": "exec", "ctx": 1, "text": s, "cpu_budget_s": 60}]
        run = common.run_vexec(steps, wd, "evalcost-%s-%d-%s" % (fam, n_, profile), profile, stack_mb=8, timeout=900)
        kind_, detail = common.crash_verdict(run, "evalcost")
        part["evaluations"] += 1
        C["evalcost_programs"] = 1
        if kind_ is None and run.ended:
            st = run.steps()
            pan = [x for x in st if "ppanic" in x or "expr_panic" in x or "desc_panic" in x or (isinstance(x.get("res"), dict) and "panic" in x["res"])]
            if pan:
                part["violations"].append({"sig": ["panic", "evalcost", fam], "what": "evaluating %d-fold `%s` panicked: %s" % (n_, EVAL_FAMILIES[fam](2), json.dumps(pan[0])[:300]), "replay": None})
            else:
                part["classes"].add("evalcost:%s:%d" % (fam, n_))
        elif kind_ in ("hang", "deadlock", "signal"):
            part["violations"].append({"sig": [kind_, "evalcost", fam], "what": "a %d-byte program, %d-fold `%s`: %s" % (len(s), n_, EVAL_FAMILIES[fam](2), detail), "replay": {"steps": steps}})
        else:
            part["inconclusive"].append("evalcost %s/%d: %s %s" % (fam, n_, kind_, detail))
    elif kind == "length":
        name, s = arg
        steps = [{"op": "parse", "text": s, "cpu_budget_s": 1200}, {"op": "exec", "text": s}, {"op": "tokenize", "text": s[:200000]}]
        run = common.run_vexec(steps, wd, "length-%s" % name, profile, stack_mb=8, timeout=3000)
        kind_, detail = common.crash_verdict(run, "length")
        part["evaluations"] += 1
        C["length_inputs"] = 1
        if kind_ is None and run.ended:
            st = run.steps()
            pan = [x for x in st if "ppanic" in x or (isinstance(x.get("res"), dict) and "panic" in x["res"]) or "tpanic" in x]
            if pan:
                part["violations"].append({"sig": ["panic", "length", name], "what": "flat input `%s` (%d bytes) panicked: %s" % (name, len(s), json.dumps(pan[0])[:300]), "replay": None})
            else:
                part["classes"].add("length:%s:%s" % (name, st[0].get("p")))
                part["samples"].append({"workload": "flat length", "input": name, "bytes": len(s.encode()), "parse_ms": (st[0]["t1"] - st[0]["t0"]) / 1e6})
        elif kind_ in ("signal", "hang", "deadlock"):
            part["violations"].append({"sig": [kind_, "length", name], "what": "flat input `%s` (%d bytes): %s" % (name, len(s), detail), "replay": None})
        else:
            part["inconclusive"].append("length %s: %s %s" % (name, kind_, detail))
    part["classes"] = sorted(part["classes"])
    return part


def length_inputs(tier):
    n = 1 << 16 if tier == "quick" else 1 << 20
    out = [
        ("long-string", "'" + "x" * (4 * n) + "'"),
        ("long-string-multibyte", "'" + "é" * n + "'"),
        ("long-number", "1" * n),
        ("long-name", "a" * (4 * n)),
        ("long-list", "[" + ",".join(["1"] * (n // 8)) + "]"),
        # no blank or delimiter anywhere: the word-operator probe rescans to the end for every name (quadratic, terminating)
        ("many-statements", ";".join(["x=1"] * min(n // 8, 32768))),
        ("many-statements-spaced", " ; ".join(["x = 1"] * (n // 8))),
        ("long-whitespace", " " * (4 * n) + "1"),
        ("long-map", "{" + ",".join(["1:2"] * (n // 16)) + "}"),
        ("long-args", "f(" + ",".join(["1"] * (n // 8)) + ")"),
        ("long-op-run", "+" * 2000),
    ]
    return out


def run(rep, tier):
    rep.rule = RULE
    rep.assumptions = ["non-termination is decided on CPU time consumed without completing a step (>= 10-120 s for inputs whose normal cost is micro- to milliseconds), never on wall time",
                       "stack exhaustion is observed as death of the executor on a signal with the crash journal naming the step; evaluation thread stack is 8 MiB"]
    common.build("verifdbg")
    common.build("release")
    L = 4 if tier == "quick" else 5
    shards = [("enum", i, 16, L, "release") for i in range(16)]
    shards += [("enum", i, 4, 3, "verifdbg") for i in range(4)]
    shards += [("tokenum", i, 16, 4 if tier == "quick" else 5, "release") for i in range(16)]
    shards += [("tokenum", 16 + i, 16, 105 if tier == "quick" else 106, "release" if i % 2 else "verifdbg") for i in range(16)]
    shards += [("arith", i, 8, 0, "release" if i % 2 else "verifdbg") for i in range(8)]
    ns = 16000 if tier == "quick" else 400000
    per = 1000 if tier == "quick" else 12500
    shards += [("soup", i, 0, per, "release" if i % 2 else "verifdbg") for i in range(ns // per)]
    shards += [("numlit", i, 2, 0, "release" if i >= 2 else "verifdbg") for i in range(4)]
    rungs = [10, 100, 1000, 3000, 40000] if tier == "quick" else [10, 100, 1000, 3000, 10000, 20000, 40000, 100000, 1000000]
    for fam in FAMILIES:
        shards.append(("ladder", 0, 0, (fam, rungs), "verifdbg"))
    shards += [("execpool", i, 0, 1500 if tier == "quick" else 40000, "release" if i % 2 else "verifdbg") for i in range(16)]
    for fam in EVAL_FAMILIES:
        for n_ in ([16, 24, 32, 64, 200] if tier == "quick" else [16, 24, 28, 32, 48, 64, 128, 200, 400]):
            shards.append(("evalcost", 0, 0, (fam, n_), "release" if n_ % 16 else "verifdbg"))
    for nm, s in length_inputs(tier):
        shards.append(("length", 0, 0, (nm, s), "release"))
    parts = common.pmap(run_shard, shards)
    # per family only the smallest aborting rung is a finding (deeper rungs abort a fortiori)
    smallest = {}
    for part in parts:
        for v in part["violations"]:
            if v["sig"][0] == "stack-exhaustion":
                fam = v["sig"][1]
                if fam not in smallest or v["depth"] < smallest[fam]["depth"]:
                    smallest[fam] = v
    for part in parts:
        part["violations"] = [v for v in part["violations"] if v["sig"][0] != "stack-exhaustion"]
        rep.merge(part)
    for fam, v in sorted(smallest.items()):
        rep.violation(v["sig"], v["what"], v["replay"])
    rep.extra["exhaustive"] = True
    rep.extra["exhaustive_space"] = "all strings of length <= %d over the %d-symbol class alphabet" % (L, len(ALPHABET))
    rep.extra["ladder_first_aborting_depth"] = {fam: v["depth"] for fam, v in smallest.items()}
    rep.floor = 50000


def san_shards(tier):
    """the same workloads under Miri (UB in slicing / rust_decimal parsing), ASan (stack and heap) and valgrind memcheck"""
    out = []
    out.append(("miri", [("enum", i, 16, 2, "miri") for i in range(16)] + [("soup", i, 0, 12, "miri") for i in range(16)]))
    out.append(("asan", [("ladder", 0, 0, (fam, [10, 100, 1000]), "asan") for fam in FAMILIES] + [("soup", i, 0, 400, "asan") for i in range(8)]))
    out.append(("valgrind", [("soup", i, 0, 300, "valgrind") for i in range(16)]))
    return out


def replay(path):
    d = json.load(open(path))
    r = d["replay"]
    wd = common.workdir(PROP, "replay")
    if "family" in r:
        s = FAMILIES[r["family"]](r["depth"])
        steps = [{"op": "parse", "text": s}, {"op": "exec", "text": s}]
    else:
        steps = [{"op": "ctx", "id": 0, "vars": {"x": ["n", "3", 0]}}] + r["steps"]
    run = common.run_vexec(steps, wd, "replay", "verifdbg", stack_mb=8)
    kind, detail = common.crash_verdict(run, "replay")
    txt = json.dumps(run.steps())[:1500]
    print(kind, detail, txt)
    if kind in ("signal", "hang", "deadlock") or "panic" in txt:
        print("VIOLATION property=%s replay=%s" % (PROP, path))
        return 1
    return 0
