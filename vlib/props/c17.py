"""C17 — Value conversions preserve the value.
Oracle: python big integers / Fractions / struct (for IEEE floats)."""
import json
import math
import struct
from fractions import Fraction
from .. import common, gen, ref

PROP = "C17"
RULE = ("Value::from for every integer type (MIN, MAX, 0, +-1, every 2^k and 2^k+-1 in range, +-(2^96-1), +-2^96, random), f32/f64 (zeros, subnormals, "
        "0.1, powers of two up to 2^100, 2^53+-1, 2^63, 1e28..1e40, infinities, NaN, random bit patterns), decimals at every scale 0-28 incl. "
        "negative zero, strings, booleans, nested lists; integer() on integral/non-integral numbers x scales x range edges; the full accessor x "
        "variant matrix. distinct class = (source type, value class, accessor outcome)")
TWO96 = 1 << 96
INTS = {"i8": (-(1 << 7), (1 << 7) - 1), "i16": (-(1 << 15), (1 << 15) - 1), "i32": (-(1 << 31), (1 << 31) - 1), "i64": (-(1 << 63), (1 << 63) - 1), "i128": (-(1 << 127), (1 << 127) - 1),
        "u8": (0, (1 << 8) - 1), "u16": (0, (1 << 16) - 1), "u32": (0, (1 << 32) - 1), "u64": (0, (1 << 64) - 1), "u128": (0, (1 << 128) - 1)}


def int_payloads(ty, rnd, nrand):
    lo, hi = INTS[ty]
    xs = {lo, hi, 0, 1, -1, lo + 1, hi - 1, TWO96 - 1, -(TWO96 - 1), TWO96, -TWO96, TWO96 + 1, 10 ** 28, -(10 ** 28), 7 * 10 ** 28, 8 * 10 ** 28}
    for k in range(0, 128):
        for d in (-1, 0, 1):
            xs.add((1 << k) + d)
            xs.add(-(1 << k) + d)
    for _ in range(nrand):
        b = rnd.randint(1, 127)
        xs.add(rnd.randint(-(1 << b), 1 << b))
    return sorted(x for x in xs if lo <= x <= hi)


def f64_bits(x):
    return struct.unpack("<Q", struct.pack("<d", x))[0]


def f32_bits(x):
    return struct.unpack("<I", struct.pack("<f", x))[0]


def float_payloads(ty, rnd, nrand):
    vals = [0.0, -0.0, 0.1, 0.2, 0.3, 1.8, -1.8, 1.5, 2.675, 1e28, 7.9e28, 7.922816251426433e28, 7.922816251426434e28, 8e28, 1e29, 1e40, -1e40, 1e-28, 1e-29, 1e-30, 5e-324, 2.2250738585072014e-308,
            float("inf"), float("-inf"), float("nan"), 9007199254740992.0, 9007199254740993.0, 9007199254740991.0, 123456789.125, 0.5, 1.0, -1.0, 3.0, 1e15, 1e16, 1e17, 1e22, 1e23, 4.35, 0.7, 1.1]
    for k in range(0, 101):
        vals += [float(2 ** k), -float(2 ** k), float(2 ** k) + 1.0 if k < 53 else float(2 ** k)]
    for k in range(1, 40):
        vals.append(2.0 ** -k)
    bits = set()
    for v in vals:
        if ty == "f64":
            bits.add(f64_bits(v))
        else:
            try:
                bits.add(f32_bits(v))
            except OverflowError:
                bits.add(0x7F800000)
    for _ in range(nrand):
        bits.add(rnd.getrandbits(64 if ty == "f64" else 32))
    for _ in range(nrand // 2):
        # random "ordinary" magnitudes
        v = rnd.uniform(-1, 1) * 10 ** rnd.randint(-10, 28)
        bits.add(f64_bits(v) if ty == "f64" else f32_bits(v))
    return sorted(bits)


def sig_digits(fr):
    p = ref.dec_parts(fr)
    if p is None:
        return 99
    m = abs(p[0])
    if m == 0:
        return 1
    s = str(m).rstrip("0")
    return len(s)


def judge_float(ty, bits, val):
    """-> (ok, why, cls)"""
    if ty == "f64":
        x = struct.unpack("<d", struct.pack("<Q", bits))[0]
    else:
        x = struct.unpack("<f", struct.pack("<I", bits))[0]
    if val[0] != "n":
        return False, "not a number", "?"
    r = Fraction(int(val[1]), 10 ** val[2])
    if math.isnan(x) or math.isinf(x):
        return False, "non-finite float became the number %s" % ref.num_text(int(val[1]), val[2]), "nan" if math.isnan(x) else "inf"
    ex = Fraction(x)
    if abs(ex) >= TWO96 and abs(r - ex) <= abs(ex) * Fraction(1, 10 ** 14):
        return True, "", "range-boundary-rounding"
    if abs(ex) >= TWO96:
        return False, "float %r is outside the decimal range but became %s" % (x, ref.num_text(int(val[1]), val[2])), "huge"
    if r == ex:
        return True, "", "exact"
    if abs(r - ex) <= Fraction(1, 10 ** 26):
        return True, "", "below-resolution"
    back = float(r)
    if ty == "f32":
        try:
            back = struct.unpack("<f", struct.pack("<f", back))[0]
        except OverflowError:
            back = float("inf")
    lim = 17 if ty == "f64" else 9
    if back == x and sig_digits(r) <= lim:
        return True, "", "shortest-roundtrip"
    # rust_decimal's from_f32/from_f64 are documented to keep ~7 / ~15 significant digits
    if sig_digits(r) <= lim and abs(r - ex) <= abs(ex) * (Fraction(1, 10 ** 14) if ty == "f64" else Fraction(1, 10 ** 6)):
        return True, "", "rounded-to-float-precision"
    return False, "float %r (exactly %s) became %s" % (x, ex, ref.num_text(int(val[1]), val[2])), "finite"


def run_shard(desc):
    kind, si, n, profile = desc
    rnd = common.rng(PROP, kind, si)
    wd = common.workdir(PROP)
    part = {"evaluations": 0, "classes": set(), "violations": [], "samples": [], "abstained": 0, "inconclusive": [], "counts": {}}
    C = part["counts"]

    seen_sigs = set()

    def viol(sig, what, step):
        key = json.dumps(sig)
        part["counts"]["violating_conversions"] = part["counts"].get("violating_conversions", 0) + 1
        if key not in seen_sigs and len(seen_sigs) < 200:
            seen_sigs.add(key)
            part["violations"].append({"sig": sig, "what": what, "replay": {"steps": [step], "profile": profile}})

    def check_accessors(acc, v, step, src):
        """accessor matrix on a known value v (tagged tuple)"""
        want = {"string": v[0] == "s", "bool": v[0] == "b", "decimal": v[0] == "n", "list": v[0] == "l"}
        for name, should in want.items():
            a = acc.get(name, {})
            if "panic" in a:
                viol(["accessor-panic", name], "%s() panicked on %s" % (name, src), step)
            elif should != ("ok" in a):
                viol(["accessor-variant", name, v[0]], "%s() on a %s value (%s) returned %s" % (name, {"s": "string", "b": "bool", "n": "number", "l": "list", "m": "map", "z": "None"}[v[0]], src, json.dumps(a)), step)
        a = acc.get("integer", {})
        if v[0] == "n":
            f = v[1]
            is_int = f.denominator == 1 and -(1 << 63) <= f.numerator <= (1 << 63) - 1
            if "panic" in a:
                viol(["accessor-panic", "integer"], "integer() panicked on %s" % src, step)
            elif is_int and a.get("ok") != str(f.numerator):
                viol(["integer-rejects-integral", "scale" if True else ""], "integer() on %s (value %s) returned %s, expected Ok(%d)" % (src, f, json.dumps(a), f.numerator), step)
            elif not is_int and "ok" in a:
                viol(["integer-accepts-non-integer", "frac" if f.denominator != 1 else "out-of-range"], "integer() on %s (value %s) returned Ok(%s), expected an error" % (src, f, a["ok"]), step)
        elif "ok" in a:
            viol(["accessor-variant", "integer", v[0]], "integer() on a non-number (%s) returned %s" % (src, json.dumps(a)), step)
        fl = acc.get("float", {})
        if v[0] == "n" and "ok" in fl:
            # float() of a number is the double nearest to it (what formatting and parsing the decimal gives)
            try:
                want = f64_bits(float(v[1]))
            except OverflowError:
                want = None
            got_bits = int(fl["ok"], 16)
            if want is not None and got_bits != want and not (v[1] == 0 and got_bits in (0, 1 << 63)):
                viol(["float-accessor-not-nearest"], "float() on %s (value %s) returned the double %r, the nearest double is %r" % (src, v[1], struct.unpack("<d", struct.pack("<Q", got_bits))[0], float(v[1])), step)
        if v[0] != "n" and "ok" in fl:
            viol(["accessor-variant", "float", v[0]], "float() on a non-number (%s) returned %s" % (src, json.dumps(fl)), step)

    steps = []
    meta = []
    float_seen = {}
    if kind == "int":
        for ty in INTS:
            for x in int_payloads(ty, rnd, n):
                steps.append({"op": "conv", "ty": ty, "x": str(x)})
                meta.append((ty, x))
    elif kind == "float":
        for ty in ("f64", "f32"):
            for b in float_payloads(ty, rnd, n):
                steps.append({"op": "conv", "ty": ty, "x": "%x" % b})
                meta.append((ty, b))
    elif kind == "floatmix":
        # the same quantities converted through both widths back to back (f32 x then f64 (x as f64), and the reverse), and the
        # float pools in shuffled order: every conversion is judged on its own and must not depend on what was converted before
        pool32 = float_payloads("f32", rnd, n)
        for b in rnd.sample(pool32, min(len(pool32), 3 * n)):
            x = struct.unpack("<f", struct.pack("<I", b))[0]
            if math.isnan(x) or math.isinf(x):
                continue
            pair = [("f32", b), ("f64", f64_bits(x))]
            if rnd.random() < 0.5:
                pair.reverse()
            if rnd.random() < 0.3:
                pair.append(pair[0])
            for ty, bb in pair:
                steps.append({"op": "conv", "ty": ty, "x": "%x" % bb})
                meta.append((ty, bb))
        mixed = [("f64", b) for b in float_payloads("f64", rnd, n // 2)] + [("f32", b) for b in float_payloads("f32", rnd, n // 2)]
        rnd.shuffle(mixed)
        for ty, bb in mixed + mixed[: len(mixed) // 3]:
            steps.append({"op": "conv", "ty": ty, "x": "%x" % bb})
            meta.append((ty, bb))
    elif kind == "dec":
        ms = [0, 1, -1, 3, 30, 300, 10, 15, -15, 25, (1 << 63) - 1, 1 << 63, -(1 << 63), -(1 << 63) - 1, 1 << 64, TWO96 - 1, -(TWO96 - 1), 10 ** 27, 123456789]
        for s in range(0, 29):
            for m in ms + [rnd.randint(-TWO96 + 1, TWO96 - 1) for _ in range(n)] + [k * 10 ** s for k in (1, -1, 7, (1 << 63) - 1, 1 << 63, -(1 << 63)) if abs(k * 10 ** s) < TWO96]:
                j = ["n", str(m), s]
                steps.append({"op": "conv", "ty": "dec", "v": j})
                meta.append(("dec", j))
            steps.append({"op": "conv", "ty": "dec", "v": ["n", "0", s, True]})
            meta.append(("dec", ["n", "0", s, True]))
    else:
        vals = [["s", ""], ["s", "a"], ["s", "é日本"], ["s", "1"], ["s", "true"], ["b", True], ["b", False], ["l", []], ["l", [["n", "1", 0], ["s", "a"], ["l", [["b", True]]]]], ["l", [["z"]]],
                ["m", []], ["m", [[["s", "k"], ["n", "1", 0]]]], ["z"], ["n", "1", 0], ["n", "0", 0], ["n", "15", 1]]
        # strings with every kind of edge content: leading/trailing blanks, BOM / zero-width / control characters, quotes, escapes, long
        strs = gen.STRS + ["\ufeff", "\ufeffabc", "\ufeff\ufeffx", "abc\ufeff", "\ufffe", "\u200b", "\u200bx", " lead", "trail ", "\t", "\n", "a\nb", "\r\n", "\x00", "\x00a", "a\x00", "\x7f", "\u0085", "\u2028",
                            "'", '"', "\\", "\\n", "null", "None", "0", "-0", "1e5", "NaN", "é", "e\u0301", "\U0001F600", "\U0001F468\u200d\U0001F469", "x" * 1000, "\ufeff" * 3, "True", "false ", " "]
        vals = vals + [["s", x] for x in strs] + [["l", [["s", x] for x in strs[:40]]]] + [["l", [["s", "\ufeffa"], ["l", [["s", "\ufeff"]]]]]]
        for j in vals:
            if j[0] in ("s", "b", "l"):
                steps.append({"op": "conv", "ty": {"s": "str", "b": "bool", "l": "list"}[j[0]], "v": j, "as_str": rnd.random() < 0.5})
                meta.append(("conv", j))
            steps.append({"op": "access", "v": j})
            meta.append(("access", j))
    import os
    if os.environ.get("VERIF_TOOL") and len(steps) > 250:
        # interpreter tiers are ~4 orders of magnitude slower: a seeded sample of the same payload pools
        idx = sorted(rnd.sample(range(len(steps)), 250))
        steps = [steps[i] for i in idx]
        meta = [meta[i] for i in idx]
    recs, events, _ = common.run_batch(steps, wd, "%s-%d" % (kind, si), profile)
    for st_, m, r in zip(steps, meta, recs):
        if r is None:
            continue
        part["evaluations"] += 1
        C["wl_" + kind] = C.get("wl_" + kind, 0) + 1
        if "conv_panic" in r:
            viol(["conversion-panic", m[0]], "Value::from(%s) panicked: %s" % (json.dumps(m[1]), r["conv_panic"]), st_)
            continue
        before = part["counts"].get("violating_conversions", 0)
        if kind == "int":
            ty, x = m
            val = r.get("val")
            if r.get("rust_display") != str(x):
                part["inconclusive"].append("payload mismatch %s vs %s" % (r.get("rust_display"), x))
                continue
            got = ref.value_from_json(val) if val else None
            if got != ("n", Fraction(x)):
                cls = "out-of-decimal-range" if abs(x) >= TWO96 else "in-range"
                viol(["from-int-wrong-number", ty, cls], "Value::from(%d as %s) denotes %s" % (x, ty, ref.num_text(int(val[1]), val[2]) if val and val[0] == "n" else json.dumps(val)), st_)
            else:
                check_accessors(r.get("acc", {}), got, st_, "Value::from(%d%s)" % (x, ty))
            cname = "int:%s:%s" % (ty, "neg" if x < 0 else ("zero" if x == 0 else "pos")) + (":beyond-i64" if abs(x) >= 1 << 63 else "")
        elif kind in ("float", "floatmix"):
            ty, b = m
            ok, why, cls = judge_float(ty, b, r.get("val", ["?"]))
            if not ok:
                viol(["from-float-wrong-number", ty, cls], "Value::from(%s bits 0x%x): %s" % (ty, b, why), st_)
            if kind == "floatmix":
                prev = float_seen.setdefault((ty, b), r.get("val"))
                if prev != r.get("val"):
                    viol(["from-float-depends-on-history", ty], "Value::from(%s bits 0x%x) gave %s earlier in this process and %s now" % (ty, b, json.dumps(prev), json.dumps(r.get("val"))), st_)
            cname = "float:%s:%s" % (ty, cls)
        elif kind == "dec":
            j = m[1]
            val = r.get("val")
            if val is None or val[:3] != j[:3]:
                viol(["from-decimal-changed"], "Value::from(Decimal %s) is %s" % (json.dumps(j), json.dumps(val)), st_)
            else:
                a = r.get("acc", {}).get("decimal", {})
                if a.get("ok", [None])[:3] != j[:3]:
                    viol(["decimal-roundtrip"], "decimal() after Value::from(Decimal %s) returned %s" % (json.dumps(j), json.dumps(a)), st_)
                check_accessors(r.get("acc", {}), ref.value_from_json(j), st_, "Decimal(mantissa %s, scale %d)" % (j[1], j[2]))
            f = Fraction(int(j[1]), 10 ** j[2])
            cname = "dec:s%d:%s" % (j[2], "integral" if f.denominator == 1 else "fractional")
        else:
            how, j = m
            v = ref.value_from_json(j)
            if how == "conv":
                if r.get("val") != j:
                    viol(["from-other-changed", j[0]], "Value::from(%s) is %s" % (json.dumps(j, ensure_ascii=False), json.dumps(r.get("val"), ensure_ascii=False)), st_)
                acc = r.get("acc", {})
                key = {"s": "string", "b": "bool", "l": "list"}[j[0]]
                back = acc.get(key, {}).get("ok")
                exp_back = j[1] if j[0] != "l" else j
                if back != exp_back:
                    viol(["roundtrip", key], "%s() after Value::from(%s) returned %s" % (key, json.dumps(j, ensure_ascii=False), json.dumps(acc.get(key), ensure_ascii=False)), st_)
            check_accessors(r.get("acc", {}), v, st_, json.dumps(j, ensure_ascii=False))
            cname = "matrix:%s:%s" % (how, j[0])
        if part["counts"].get("violating_conversions", 0) == before:
            part["classes"].add(cname)
            if len(part["samples"]) < 2 and kind in ("int", "float"):
                part["samples"].append({"conversion": st_, "value": r.get("val"), "integer()": r.get("acc", {}).get("integer")})
    for kind_, detail, k in events:
        if kind_ in ("signal", "hang", "deadlock"):
            part["violations"].append({"sig": ["crash", kind_], "what": detail, "replay": None})
        else:
            part["inconclusive"].append("%s: %s" % (kind_, detail))
    part["classes"] = sorted(part["classes"])
    return part


def run(rep, tier):
    rep.rule = RULE
    rep.assumptions = ["a finite float may become either its exact binary expansion or a decimal of <= 17 (f64) / 9 (f32) significant digits within 1e-14 (1e-6) relative error; differences below 1e-26 (a few units of the last decimal places the type can hold) are ignored",
                       "From<integer>/From<float> cannot fail by type, so an input outside the decimal range has no acceptable result (recorded as known findings)"]
    common.build("verifdbg")
    common.build("release")
    q = tier == "quick"
    shards = []
    for i in range(4):
        shards.append(("int", i, 300 if q else 20000, "release" if i % 2 else "verifdbg"))
        shards.append(("float", i, 5000 if q else 400000, "release" if i % 2 else "verifdbg"))
        shards.append(("dec", i, 40 if q else 3000, "release" if i % 2 else "verifdbg"))
        shards.append(("floatmix", i, 3000 if q else 200000, "release" if i % 2 else "verifdbg"))
    shards.append(("matrix", 0, 0, "verifdbg"))
    shards.append(("matrix", 1, 0, "release"))
    for part in common.pmap(run_shard, shards):
        rep.merge(part)
    rep.extra["exhaustive"] = True
    rep.extra["exhaustive_space"] = "accessor x variant matrix; every 2^k, 2^k+-1 of every integer type"
    rep.floor = 10000


def san_shards(tier):
    return [("miri", [("int", 500 + i, 5, "miri") for i in range(6)] + [("float", 500 + i, 100, "miri") for i in range(6)] + [("dec", 500 + i, 1, "miri") for i in range(3)] + [("matrix", 500, 0, "miri")])]


def replay(path):
    d = json.load(open(path))
    run = common.run_vexec(d["replay"]["steps"], common.workdir(PROP, "replay"), "replay", d["replay"].get("profile", "verifdbg"))
    print(json.dumps(run.steps(), ensure_ascii=False))
    print("(re-run `./check C17` to re-judge; the record above is the crate's current answer)")
    return 0
