"""C13 — concurrent use is safe, including first use and concurrent registration.
Monitors over recorded histories (call/return timestamps from one monotonic clock, one fresh process each):
 * every step that mentions no concurrently registered name must return the sequential model's unique answer
   (a partially initialised table shows up as a different AST / an error);
 * per raced name, register linearizability: a read after the write returned must see it, a read that returned
   before the write was called must not, and a thread never sees new-then-old;
 * no panic on any thread; no deadlock (state-based verdict of the in-process supervisor).
The initialisation boundary is additionally *forced*: a probe parks the initialising thread at each of the five
stages while other threads make their first calls."""
import itertools
import json
from .. import common, gen, ref, evalcheck

PROP = "C13"
RULE = ("(1) fresh-process first-use races: 2-16 threads released by a barrier with 0-20us jitter, each thread's first engine call drawn from {parse, execute, "
        "register_function, register_prefix_op, register_infix_op, register_postfix_op}, then 3-10 more steps on its own context; (2) forced interleavings: "
        "thread A's first call parked by the init probe at stage k in 0..4 while 1-3 threads B make their first calls (all 6x6 kind pairs x 5 stages); "
        "(3) steady-state stress: evaluator threads continuously evaluate programs naming operators/functions that registrar threads register one by one. "
        "distinct class = (A kind, stage, B kind) for forced runs, distinct thread-order interleavings (order of call events) for races")
KINDS = ["parse", "exec", "reg_fn", "reg_prefix", "reg_infix", "reg_postfix"]
PROGS = ["-1 + 2++ ; min(3, 4) + (5 in [5] ? 1 : 0)", "not (1 > 2) && 'ab' beginWith 'a'", "x = 3; x *= 2; x-- + sum(1, x)", "sum(1, 2, 3) * mul(2, 2) - 8 % 3", "AND [true, 1 < 2] || OR [false]",
         "[1 << 4, 7 & 3, 6 | 1, 5 ^ 1, -8 >> 1]", "{'k': 2 + 3, 1: !false}", "5 not in [1, 2] ? 'y' : 'n'", "a = 1; a += 2; a <<= 2; a", "'xy' endWith 'y' == true"]


def expected_of(text, table, **kw):
    t = ref.rparse(ref.rtok(text, table), table)
    exp, ev = ref.evaluate(t, {}, table=table, **kw)
    return t, exp


def step_of_kind(kind, tid, j, model, rnd):
    """-> (vexec step, expectation or None). model = dict(table, gfuncs, handlers) of this thread"""
    if kind == "parse":
        text = rnd.choice(PROGS)
        t, exp = expected_of(text, model["table"], gfuncs=model["gfuncs"], handlers=model["handlers"])
        return {"op": "parse", "text": text, "want": "a"}, ("ast", t, text)
    if kind == "exec":
        text = rnd.choice(PROGS + model["own_programs"])
        t, exp = expected_of(text, model["table"], gfuncs=model["gfuncs"], handlers=model["handlers"])
        return {"op": "exec", "text": text, "want": "a"}, ("eval", t, exp, text)
    hid = 5000 + tid * 100 + j
    b = ref.Beh(hid, False, "tag")
    if kind == "reg_fn":
        nm = "tf%d_%d" % (tid, j)
        model["gfuncs"][nm] = b
        model["own_programs"].append("%s(1, 2)" % nm)
        return {"op": "reg_fn", "name": nm, "beh": b.to_json()}, None
    if kind == "reg_prefix":
        nm = "tp%d_%d" % (tid, j)
        model["table"].prefix.add(nm)
        model["handlers"][("prefix", nm)] = b
        model["own_programs"].append("%s 3" % nm)
        return {"op": "reg_prefix", "name": nm, "beh": b.to_json()}, None
    if kind == "reg_postfix":
        nm = "tq%d_%d" % (tid, j)
        model["table"].postfix.add(nm)
        model["handlers"][("postfix", nm)] = b
        model["own_programs"].append("3 %s" % nm)
        return {"op": "reg_postfix", "name": nm, "beh": b.to_json()}, None
    nm = "ti%d_%d" % (tid, j)
    model["table"].infix[nm] = (115, "LEFT", "CALC")
    model["handlers"][("infix", nm)] = b
    model["own_programs"].append("1 + 2 %s 3" % nm)
    return {"op": "reg_infix", "name": nm, "prec": 115, "type": "CALC", "assoc": "LEFT", "beh": b.to_json()}, None


def new_model():
    return {"table": ref.OpTable(), "gfuncs": {}, "handlers": {}, "own_programs": []}


def judge_step(rec, expct):
    """-> None or description of the deviation"""
    if expct is None:
        if "reg_panic" in rec:
            return "registration panicked: %s" % json.dumps(rec["reg_panic"])
        return None
    if rec.get("p") == "panic" or (isinstance(rec.get("res"), dict) and "panic" in rec["res"]):
        return "panicked: %s" % json.dumps(rec.get("ppanic") or rec.get("res"))
    if expct[0] == "ast":
        if rec.get("p") != "ok" or rec.get("ast") != expct[1]:
            return "`%s` parsed as %s, the sequential answer is %s" % (expct[2], json.dumps(rec.get("ast") or rec.get("perr")), json.dumps(expct[1]))
        return None
    _, t, exp, text = expct
    if rec.get("p") != "ok" or rec.get("ast") != t:
        return "`%s` parsed as %s, the sequential answer is %s" % (text, json.dumps(rec.get("ast") or rec.get("perr")), json.dumps(t))
    st, detail = evalcheck.judge(exp, None, rec)
    if st.startswith("viol"):
        return "`%s`: %s" % (text, detail)
    return None


def order_signature(threads):
    ev = []
    for ti, recs in enumerate(threads):
        if isinstance(recs, list):
            for r in recs:
                ev.append((r.get("t0", 0), ti))
    ev.sort()
    return "".join("%x" % (t % 16) for _, t in ev)[:80]


def _indep():
    texts = ["1+(" * d + "1" + ")" * d for d in (40, 100, 150)]
    texts.append("[" * 60 + "7" + "]" * 60 + " == " + "[" * 60 + "7.0" + "]" * 60)
    texts.append("acc = 0; " + "acc += 2; " * 40 + "acc * 1.5")
    texts.append("max(" * 30 + "3" + ", 2)" * 30 + " + min(5, sum(1, 2, 3), mul(2, 2))")
    texts.append("x = 'a'; y = [x, 1, {x: 2}]; 'a' in y && not (2 in y) ? " + "- " * 41 + "5 : 0")
    texts.append("true ? " * 50 + "1" + " : 0" * 50)
    out = []
    for t in texts:
        o, _ = ref.evaluate(ref.rparse(ref.rtok(t)), {})
        assert o[0] == "ok", (t, o)
        out.append((t, o))
    return out


INDEP = _indep()
INDEP_SMALL = [(t_, ref.evaluate(ref.rparse(ref.rtok(t_)), {})[0]) for t_ in ("1+(1+(1+(1+1)))", "acc = 0; acc += 2; acc += 2; acc * 1.5", "max(max(3, 2), 2) + min(5, sum(1, 2, 3))")]


def run_shard(desc):
    kind, si, n, profile = desc
    rnd = common.rng(PROP, kind, si)
    wd = common.workdir(PROP)
    part = {"evaluations": 0, "classes": set(), "violations": [], "samples": [], "abstained": 0, "inconclusive": [], "counts": {}}
    C = part["counts"]
    orders = set()

    def viol(sig, what, steps):
        if len(part["violations"]) < 30:
            part["violations"].append({"sig": sig, "what": what, "replay": {"steps": steps, "profile": profile}})

    def crashed(run, steps, what):
        kind_, detail = common.crash_verdict(run, what)
        if kind_ is None and run.ended and run.gave_up:
            part["inconclusive"].append("%s: %d logical-clock waits timed out (machine overloaded); run discarded" % (what, run.gave_up))
            return True
        if kind_ is None and run.ended:
            return False
        if kind_ in ("signal", "hang", "deadlock"):
            viol([kind_, what], "%s: %s" % (what, detail), steps)
        else:
            part["inconclusive"].append("%s: %s %s" % (what, kind_, detail))
        return True

    if kind == "midreg":
        # a registration that lands in the MIDDLE of one evaluation (the evaluating thread is parked inside a handler, the registrar
        # runs, the evaluation resumes): its result must be what the same call gives entirely before or entirely after the
        # registration -- both computed by the implementation itself in fresh sequential processes
        for h in range(n):
            sc = (h + si) % 8
            nm = "mz%d_%d" % (si, h)
            gate = {"op": "reg_fn", "name": "gatef", "beh": {"id": 30, "ret": "last", "gate": 2}}
            nogate = {"op": "reg_fn", "name": "gatef", "beh": {"id": 30, "ret": "last"}}
            h1 = {"id": 31000 + h, "ret": "tag"}
            h2 = {"id": 32000 + h, "ret": "tag"}
            pre, ctxv = [], {"x": ["n", "5", 0]}
            if sc == 0:    # CALC -> SETTER with a new handler
                pre = [{"op": "reg_infix", "name": nm, "prec": 115, "type": "CALC", "assoc": "LEFT", "beh": h1}]
                reg = {"op": "reg_infix", "name": nm, "prec": 115, "type": "SETTER", "assoc": "LEFT", "beh": h2}
                prog = "x %s gatef(1)" % nm
            elif sc == 1:  # CALC -> CALC, new handler
                pre = [{"op": "reg_infix", "name": nm, "prec": 115, "type": "CALC", "assoc": "LEFT", "beh": h1}]
                reg = {"op": "reg_infix", "name": nm, "prec": 115, "type": "CALC", "assoc": "LEFT", "beh": h2}
                prog = "6 %s gatef(4)" % nm
            elif sc == 2:  # a postfix word registered while a statement chain that mentions it twice is running
                reg = {"op": "reg_postfix", "name": nm, "beh": h2}
                prog = "a = 1 %s; gatef(0); b = 1 %s; [a, b]" % (nm, nm)
            elif sc == 3:  # a new infix word
                reg = {"op": "reg_infix", "name": nm, "prec": 115, "type": "CALC", "assoc": "LEFT", "beh": h2}
                prog = "6 %s gatef(4)" % nm
            elif sc == 4:  # SETTER -> CALC
                pre = [{"op": "reg_infix", "name": nm, "prec": 20, "type": "SETTER", "assoc": "RIGHT", "beh": h1}]
                reg = {"op": "reg_infix", "name": nm, "prec": 20, "type": "CALC", "assoc": "RIGHT", "beh": h2}
                prog = "x %s gatef(1); x" % nm
            elif sc == 6:  # an UNRELATED name is registered while a program that is not idempotent on its context is running: it runs once
                reg = [{"op": "reg_fn", "name": nm, "beh": h2}, {"op": "reg_prefix", "name": nm, "beh": h2}, {"op": "reg_postfix", "name": nm, "beh": h2}][h % 3]
                prog = "x += gatef(1); x"
            elif sc == 7:
                reg = {"op": "reg_infix", "name": nm, "prec": 115, "type": "CALC", "assoc": "LEFT", "beh": h2}
                prog = "x *= gatef(2); y = x; x -= 1; [x, y]"
            else:          # a global function replaced while its (single) call is evaluating its argument
                pre = [{"op": "reg_fn", "name": nm, "beh": h1}]
                reg = {"op": "reg_fn", "name": nm, "beh": h2}
                prog = "%s(gatef(7))" % nm
            via = {"via": "execute"} if (h // 6 + si) % 2 else {}
            ex = dict({"op": "exec", "ctx": 1, "text": prog}, **via)
            cx = {"op": "ctx", "id": 1, "vars": ctxv}
            outs = []
            for variant in ("old", "new"):
                st_ = [{"op": "exec", "text": "1 + 1"}, nogate] + pre + ([reg] if variant == "new" else []) + [cx, ex]
                r_ = common.run_vexec(st_, wd, "mid-%s-%d-%d" % (variant, si, h), profile, timeout=120)
                outs.append((r_.steps()[-1].get("res"), r_.steps()[-1].get("snap")) if r_.ended and r_.steps() else None)
            steps = [{"op": "exec", "text": "1 + 1"}, gate] + pre + [{"op": "threads", "plans": [[cx, ex], [{"op": "wait_tick", "n": 1}, reg, {"op": "tick"}]]}]
            run = common.run_vexec(steps, wd, "mid-%d-%d" % (si, h), profile, timeout=120)
            if crashed(run, steps, "registration in the middle of an evaluation"):
                continue
            if None in outs:
                part["inconclusive"].append("midreg reference run failed")
                continue
            th = run.steps()[-1].get("threads", [])
            if not (isinstance(th, list) and len(th) == 2 and isinstance(th[0], list) and len(th[0]) == 2):
                viol(["thread-panicked", "midreg"], "a thread panicked outside a step", steps)
                continue
            got = (th[0][1].get("res"), th[0][1].get("snap"))
            part["evaluations"] += 1
            C["midreg_evaluations"] = C.get("midreg_evaluations", 0) + 1
            if got == outs[0] or got == outs[1]:
                part["classes"].add("midreg:scenario%d:%s:%s" % (sc, "execute" if via else "exec", "old" if got == outs[0] else "new"))
            else:
                viol(["registration-seen-halfway", "scenario%d" % sc, "execute" if via else "parse+exec"],
                     "`%s` (%s) was evaluating -- parked inside a handler -- while another thread ran %s %s; it returned %s / context %s, which is neither what the call gives before the registration (%s / %s) nor after it (%s / %s)" % (
                         prog, "execute" if via else "parse_expression + exec", reg["op"], json.dumps({k_: v_ for k_, v_ in reg.items() if k_ in ("name", "type", "prec")}), json.dumps(got[0]), json.dumps(got[1]), json.dumps(outs[0][0]), json.dumps(outs[0][1]), json.dumps(outs[1][0]), json.dumps(outs[1][1])), steps)
        part["classes"] = sorted(part["classes"])
        return part
    if kind == "regrace":
        # rounds of simultaneous registrations: T threads leave a spin rendezvous together, each registers one new name (every round
        # uses each registry at least once; names differ in length and grow from round to round), evaluates a program using it right
        # after register returned, meets the others again and then evaluates the programs of all names of the round.
        import os
        miri = os.environ.get("VERIF_TOOL") == "miri"
        for h in range(n):
            T = rnd.choice([2, 3, 4, 4, 6, 8]) if not miri else 2
            R = (rnd.choice([40, 120, 250]) if profile != "tsan" else 40) if not miri else 2
            kinds4 = ["prefix", "infix", "postfix", "fn"]
            plans = [[] for _ in range(T)]
            meta = [[] for _ in range(T)]  # per thread: (step kind, name, kind, expected id)
            mk = 0

            def reg_of(nm, kd, hid):
                if kd == "fn":
                    return {"op": "reg_fn", "name": nm, "beh": {"id": hid, "ret": "tag"}}
                if kd == "infix":
                    return {"op": "reg_infix", "name": nm, "prec": 115, "type": "CALC", "assoc": "LEFT", "beh": {"id": hid, "ret": "tag"}}
                return {"op": "reg_" + kd, "name": nm, "beh": {"id": hid, "ret": "tag"}}

            def prog_of(nm, kd):
                return {"fn": "%s(1)", "infix": "6 %s 4", "prefix": "%s 4", "postfix": "4 %s"}[kd] % nm

            def want_of(kd, hid):
                args = {"fn": ["1"], "infix": ["6", "4"], "prefix": ["4"], "postfix": ["4"]}[kd]
                return {"ok": ["l", [["n", str(hid), 0]] + [["n", a_, 0] for a_ in args]]}

            same_table = h % 3 == 0  # every third history races registrations inside ONE registry
            for r in range(R):
                rot = rnd.randrange(4)
                offs = list(range(T))
                rnd.shuffle(offs)
                rnd_names = []
                for t in range(T):
                    kd = kinds4[rot] if same_table else kinds4[(t + rot) % 4]
                    # lengths: round r is longer than every earlier round; within a round the threads differ
                    nm = "q%s%dt%d" % (kd[0], r, t)
                    nm += "y" * (12 + r * (T + 1) + offs[t] - len(nm))
                    rnd_names.append((nm, kd, 20000 + r * 16 + t))
                for t in range(T):
                    nm, kd, hid = rnd_names[t]
                    plans[t].append({"op": "meet", "k": mk, "n": T})
                    meta[t].append(None)
                    if r % 5 == 2 and t == r % T:
                        # a bystander operator with a precedence below every built-in level (legal: it simply never binds), mentioned by no
                        # program: the call must return and leave every registry usable for the other threads (C13u)
                        plans[t].append({"op": "reg_infix", "name": "nb%dr%d" % (h, r), "prec": rnd.choice([-5, -1, 0]), "type": "CALC", "assoc": "LEFT", "beh": {"id": 7, "ret": "tag"}})
                        meta[t].append(None)
                    plans[t].append(reg_of(nm, kd, hid))
                    meta[t].append(None)
                    plans[t].append({"op": "exec", "text": prog_of(nm, kd), "nosnap": True})
                    meta[t].append(("own", nm, kd, hid))
                    plans[t].append({"op": "meet", "k": mk + 1, "n": T})
                    meta[t].append(None)
                    for (nm2, kd2, hid2) in rnd_names:
                        plans[t].append({"op": "exec", "text": prog_of(nm2, kd2), "nosnap": True})
                        meta[t].append(("all", nm2, kd2, hid2))
                mk += 2
            steps = [{"op": "exec", "text": "1 + 1"}, {"op": "threads", "plans": plans, "jitter_ns": [0] * T}]
            run = common.run_vexec(steps, wd, "rr-%d-%d" % (si, h), profile, timeout=600)
            if crashed(run, steps, "simultaneous registrations"):
                continue
            C["regrace_processes"] = C.get("regrace_processes", 0) + 1
            th = run.steps()[1].get("threads", [])
            orders.add(order_signature(th))
            for t, recs in enumerate(th):
                if not isinstance(recs, list):
                    viol(["thread-panicked", "regrace"], "a thread panicked outside a step", None)
                    continue
                for m_, r_ in zip(meta[t], recs):
                    if m_ is None:
                        continue
                    how, nm, kd, hid = m_
                    part["evaluations"] += 1
                    C["regrace_reads"] = C.get("regrace_reads", 0) + 1
                    if r_.get("res") == want_of(kd, hid):
                        part["classes"].add("regrace:%s:%s:%s" % (kd, how, "one-table" if same_table else "mixed"))
                    else:
                        viol(["registration-lost", kd, how, "one-table" if same_table else "mixed-tables"],
                             "%d threads registered new names at the same moment (%s); `%s`, evaluated %s after its register_%s call had returned, gives %s instead of the registered handler's %s" % (
                                 T, "all in the %s registry" % kd if same_table else "in different registries", prog_of(nm, kd), "by the registering thread right" if how == "own" else "by thread %d" % t, kd, json.dumps(r_.get("res") or r_.get("perr")), json.dumps(want_of(kd, hid))), None)
        C["distinct_interleavings"] = len(orders)
        part["classes"].update("order:" + o for o in list(orders)[:400])
        part["classes"] = sorted(part["classes"])
        return part
    if kind == "firstuse":
        for h in range(n):
            T = rnd.choice([2, 4, 8, 16])
            import os
            if os.environ.get("VERIF_TOOL") == "miri":
                T = rnd.choice([2, 3])
            plans, exps = [], []
            for t in range(T):
                m = new_model()
                plan, ex = [], []
                kinds = [rnd.choice(KINDS)] + [rnd.choice(KINDS) for _ in range(rnd.randint(3, 10) if os.environ.get("VERIF_TOOL") != "miri" else 2)]
                for j, k in enumerate(kinds):
                    s, e = step_of_kind(k, t, j, m, rnd)
                    plan.append(s)
                    ex.append(e)
                if t == 0 and h % 3 == 0:
                    # thread 0's FIRST engine call overrides a built-in that no other thread mentions (function `max`, or prefix `+`); it must
                    # stay in force whichever thread's call ends up initialising the engine
                    if h % 2:
                        b_ = ref.Beh(4990, False, "tag")
                        m["gfuncs"]["max"] = b_
                        plan.insert(0, {"op": "reg_fn", "name": "max", "beh": b_.to_json()})
                        prog_ = "max(3, 4)"
                    else:
                        b_ = ref.Beh(4991, False, "tag")
                        m["handlers"][("prefix", "+")] = b_
                        plan.insert(0, {"op": "reg_prefix", "name": "+", "beh": b_.to_json()})
                        prog_ = "+ 4"
                    ex.insert(0, None)
                    t_, exp_ = expected_of(prog_, m["table"], gfuncs=m["gfuncs"], handlers=m["handlers"])
                    for _ in range(2):
                        plan.append({"op": "exec", "text": prog_, "want": "a"})
                        ex.append(("eval", t_, exp_, prog_))
                plans.append(plan)
                exps.append(ex)
            steps = [{"op": "threads", "plans": plans, "jitter_ns": [0 if (h % 3 == 0 and t_i == 0) else rnd.randint(0, 20000) for t_i in range(T)]}]
            run = common.run_vexec(steps, wd, "fu-%d-%d" % (si, h), profile, timeout=300)
            if crashed(run, steps, "first-use race of %d threads" % T):
                continue
            C["race_processes"] = C.get("race_processes", 0) + 1
            th = run.steps()[0].get("threads", [])
            orders.add(order_signature(th))
            for t, recs in enumerate(th):
                if not isinstance(recs, list):
                    viol(["thread-panicked", "firstuse"], "a thread of a %d-thread first-use race panicked outside a step" % T, steps)
                    continue
                for j, (rec, ex) in enumerate(zip(recs, exps[t])):
                    part["evaluations"] += 1
                    C["race_steps"] = C.get("race_steps", 0) + 1
                    bad = judge_step(rec, ex)
                    if bad:
                        viol(["not-sequential", "firstuse", "first-call" if j == 0 else "later-call", plans[t][j]["op"]], "in a %d-thread first-use race, thread %d step %d (%s): %s" % (T, t, j, plans[t][j]["op"], bad), steps)
                    elif j == 0:
                        part["classes"].add("firstuse:first=%s:T%d" % (plans[t][0]["op"], T))
    elif kind == "forced":
        combos = list(itertools.product(KINDS, range(5), KINDS))
        mine = combos[si::n]
        for (ka, stage, kb) in mine:
            nb = rnd.randint(1, 3)
            ma = new_model()
            sa, ea = step_of_kind(ka, 0, 0, ma, rnd)
            bplans, bexps = [], []
            for b in range(nb):
                mb = new_model()
                kinds = [kb if b == 0 else rnd.choice(KINDS), "exec"]
                plan, ex = [], []
                for j, k in enumerate(kinds):
                    s, e = step_of_kind(k, b + 1, j, mb, rnd)
                    plan.append(s)
                    ex.append(e)
                bplans.append(plan)
                bexps.append(ex)
            override = rnd.random() < 0.3
            if override:
                # B additionally overrides a built-in during A's initialisation: it must win afterwards
                bplans[0].append({"op": "reg_fn", "name": "max", "beh": {"id": 7777, "ret": "tag"}})
                bexps[0].append(None)
            steps = [{"op": "init_race", "stage": stage, "a": [sa], "bs": bplans, "wait_ms": 120}, {"op": "exec", "text": "max(3, 4)"}]
            run = common.run_vexec(steps, wd, "fr-%d-%s-%d-%s" % (si, ka, stage, kb), profile, timeout=300)
            if crashed(run, steps, "forced interleaving A=%s stage=%d B=%s" % (ka, stage, kb)):
                continue
            C["forced_processes"] = C.get("forced_processes", 0) + 1
            r0 = run.steps()[0]
            fired = r0.get("probe_mask", 0)
            C["probe_fired_stage%d" % stage] = C.get("probe_fired_stage%d" % stage, 0) + (1 if fired & (1 << stage) else 0)
            if not fired & (1 << stage):
                part["inconclusive"].append("init probe never reached stage %d (hook unreachable?)" % stage)
                continue
            ok = True
            arec = r0.get("a")
            if not isinstance(arec, list) or not arec:
                viol(["thread-panicked", "forced"], "thread A (%s) did not return a record" % ka, steps)
                continue
            part["evaluations"] += 1
            bad = judge_step(arec[0], ea)
            if bad:
                viol(["not-sequential", "forced", "A", ka, "stage%d" % stage], "initialising thread A (%s), parked at stage %d: %s" % (ka, stage, bad), steps)
                ok = False
            overtook = 0
            for b, recs in enumerate(r0.get("bs", [])):
                if not isinstance(recs, list):
                    viol(["thread-panicked", "forced"], "thread B%d panicked outside a step" % b, steps)
                    ok = False
                    continue
                for j, (rec, ex) in enumerate(zip(recs, bexps[b])):
                    part["evaluations"] += 1
                    if j == 0 and rec.get("t1", 0) < r0.get("probe_t1", 0):
                        overtook += 1
                    bad = judge_step(rec, ex)
                    if bad:
                        viol(["not-sequential", "forced", "B", bplans[b][j]["op"], "stage%d" % stage], "thread B's call (%s) made while thread A (%s) was parked inside initialisation at stage %d (B returned %s A resumed): %s" % (bplans[b][j]["op"], ka, stage, "BEFORE" if rec.get("t1", 0) < r0.get("probe_t1", 0) else "after", bad), steps)
                        ok = False
            C["b_overtook_init"] = C.get("b_overtook_init", 0) + overtook
            fin = run.steps()[1]
            want = {"ok": ["l", [["n", "7777", 0], ["n", "3", 0], ["n", "4", 0]]]} if override else {"ok": ["n", "4", 0]}
            if fin.get("res") != want:
                viol(["override-lost" if override else "final-wrong", "forced", "stage%d" % stage], "after the race (A=%s parked at stage %d, B=%s%s) `max(3, 4)` gives %s, expected %s" % (ka, stage, kb, " + override of max" if override else "", json.dumps(fin.get("res")), json.dumps(want)), steps)
                ok = False
            if ok:
                part["classes"].add("forced:A=%s:stage%d:B=%s" % (ka, stage, kb))
                if len(part["samples"]) < 2:
                    part["samples"].append({"A_first_call": sa, "parked_at_stage": stage, "B_first_calls": [p[0] for p in bplans], "b_returned_before_A_resumed": overtook, "A_result": arec[0].get("res") or arec[0].get("p")})
    else:
        for h in range(n):
            nn = 12
            E = rnd.choice([4, 8, 14])
            # raced names of all four registries; names get longer with i (each is the longest registered so far), and the two
            # registrars register the names 2j and 2j+1 -- always of two different registries -- at the same logical moment
            KINDS_ = ["infix", "prefix", "postfix", "infix", "prefix", "fn", "postfix", "prefix", "infix", "postfix", "fn", "infix"]
            names = ["w%s%d%s" % (KINDS_[i][0], i, "x" * (i if h % 2 else 0)) for i in range(nn)]
            kind_of = {nm: KINDS_[i] for i, nm in enumerate(names)}

            def reg_step_for(nm, hid):
                k_ = kind_of[nm]
                if k_ == "fn":
                    return {"op": "reg_fn", "name": nm, "beh": {"id": hid, "ret": "tag"}}
                if k_ == "infix":
                    return {"op": "reg_infix", "name": nm, "prec": 115, "type": "CALC", "assoc": "LEFT", "beh": {"id": hid, "ret": "tag"}}
                return {"op": "reg_" + k_, "name": nm, "beh": {"id": hid, "ret": "tag"}}

            def text_for(nm):
                return {"fn": "%s(1)", "infix": "6 %s 4", "prefix": "%s 4", "postfix": "4 %s"}[kind_of[nm]] % nm
            plans = []
            reg_plan_a, reg_plan_b = [], []
            import os
            block = 400 if profile == "release" else 200
            if os.environ.get("VERIF_TOOL") == "miri":
                block, E = 3, min(E, 3)
            elif os.environ.get("VERIF_TOOL"):
                block = 80
            # logical clock: every evaluation ticks; the registrar of name i waits until the evaluators are in the
            # middle of their block of evaluations of name i, so the registration races evaluations of that name
            reg_plan_a, reg_plan_b = [], []
            for i, nm in enumerate(names):
                tgt = reg_plan_a if i % 2 == 0 else reg_plan_b
                if i % 2 == 0:
                    pair_tick = i * 4 * E + rnd.randint(E, 3 * E)
                tgt.append({"op": "wait_tick", "n": pair_tick if h % 2 else i * 4 * E + rnd.randint(E, 3 * E)})
                tgt.append(reg_step_for(nm, 8000 + i))
            # phase 2: every name is overridden once more (new handler id, same precedence): an evaluation must then see
            # the old or the new handler, never "unregistered"
            for i, nm in enumerate(names):
                tgt = reg_plan_a if i % 2 == 0 else reg_plan_b
                tgt.append({"op": "wait_tick", "n": (nn + i) * 4 * E + rnd.randint(E, 3 * E)})
                tgt.append(dict(reg_step_for(nm, 8100 + i), tag="override"))
            plans = [reg_plan_a, reg_plan_b]
            for e in range(E):
                plan = []
                if e == 0:
                    # a contained handler panic on this thread must not affect any other call (no poisoned registry)
                    plan.append({"op": "reg_fn", "name": "pz", "beh": {"id": 8999, "ret": "last"}})
                    plan.append({"op": "exec", "text": "pz(1)", "fault": {"k": 1, "kind": "panic"}})
                for phase in (1, 2):
                    for i, nm in enumerate(names):
                        for it in range(4):
                            hs = {"op": "hammer", "tick": True, "n": block, "text": text_for(nm), "tag": nm if phase == 1 else "2:" + nm}
                            if e % 2 == 1:
                                hs["ctx"] = 600 + e  # odd evaluators reuse one context of their own for every evaluation
                            plan.append(hs)
                plans.append(plan)
            # bystanders: threads that evaluate programs naming nothing that is being registered (deeply nested, long, assigning, calling
            # built-ins) on their own fresh contexts; whatever the other threads do, each evaluation must give its sequential result
            miri_ = os.environ.get("VERIF_TOOL") == "miri"
            n_indep = 2 if miri_ else 6
            indep_progs = INDEP if not miri_ else INDEP_SMALL  # the interpreter is ~4 orders of magnitude slower
            first_indep = len(plans)
            for j in range(n_indep):
                plan = []
                for q in range(2 * nn * 4 if not miri_ else 6):
                    k = (q + j) % len(indep_progs)
                    plan.append({"op": "hammer", "n": max(1, block // 8), "text": indep_progs[k][0], "tag": "indep:%d" % k})
                if j < 2:
                    # one bystander's own context binds a function that locks that context's handle while it runs (by bare name / by call)
                    cid_ = 700 + j
                    plan.insert(0, {"op": "ctx", "id": cid_, "vars": {"v": ["n", "1", 0]}, "fns": {"lk": {"id": 77, "ret": "const", "v": ["n", "1", 0], "reenter": {"act": "lock_ctx_block"}}}})
                    for q in range(1, len(plan), 7):
                        plan.insert(q, {"op": "hammer", "ctx": cid_, "n": 3, "text": "lk + v" if j == 0 else "lk() + v", "tag": "relock"})
                plans.append(plan)
            steps = [{"op": "exec", "text": "1 + 1"}, {"op": "threads", "plans": plans, "jitter_ns": [0] * len(plans)}]
            run = common.run_vexec(steps, wd, "st-%d-%d" % (si, h), profile, timeout=600)
            if crashed(run, steps, "steady-state stress"):
                continue
            C["stress_processes"] = C.get("stress_processes", 0) + 1
            th = run.steps()[1].get("threads", [])
            orders.add(order_signature(th))
            writes = {}
            overrides = {}
            for recs in th[:2]:
                if isinstance(recs, list):
                    for r in recs:
                        if r.get("op") in ("reg_fn", "reg_infix"):
                            pass
            for pi, recs in enumerate(th[:2]):
                if not isinstance(recs, list):
                    viol(["thread-panicked", "stress"], "a registrar thread panicked", None)
                    continue
                for st_, r in zip(plans[pi], recs):
                    if st_["op"].startswith("reg_") and st_.get("tag") != "override":
                        writes[st_["name"]] = (r["t0"], r["t1"], st_["beh"]["id"])
                    elif st_["op"].startswith("reg_"):
                        overrides[st_["name"]] = (r["t0"], r["t1"], st_["beh"]["id"])
            for recs in th[first_indep:]:
                if not isinstance(recs, list):
                    viol(["thread-panicked", "stress"], "a bystander thread panicked outside a step", None)
                    continue
                for r in recs:
                    tag = r.get("tag")
                    if tag == "relock":
                        for sg in r.get("segs", []):
                            part["evaluations"] += sg["count"]
                            C["relocking_evaluations"] = C.get("relocking_evaluations", 0) + sg["count"]
                            if sg["res"] == {"ok": ["n", "2", 0]}:
                                part["classes"].add("bystander:relock")
                            else:
                                viol(["bystander-disturbed", "relock"], "a thread evaluating a program whose context function locks its own context got %s (%d times), expected 2" % (json.dumps(sg["res"])[:200], sg["count"]), None)
                        continue
                    if not (isinstance(tag, str) and tag.startswith("indep:")):
                        continue
                    text, want = indep_progs[int(tag[6:])]
                    for sg in r.get("segs", []):
                        part["evaluations"] += sg["count"]
                        C["bystander_evaluations"] = C.get("bystander_evaluations", 0) + sg["count"]
                        if ref.outcome_from_record(sg["res"]) == want:
                            part["classes"].add("bystander:%s" % tag)
                        else:
                            viol(["bystander-disturbed", tag], "a thread evaluating `%s` on its own context, while other threads evaluated and registered unrelated names, got %s (%d times); alone and in every sequential order the result is %s" % (text[:120], json.dumps(sg["res"])[:200], sg["count"], evalcheck.fmt_outcome(want)), None)
            for e, recs in enumerate(th[2:first_indep]):
                if not isinstance(recs, list):
                    viol(["thread-panicked", "stress"], "an evaluator thread panicked outside a step", None)
                    continue
                stage_seen = {}  # name -> highest stage seen by this thread (0 = unregistered, 1 = first handler, 2 = override)
                for r in recs:
                    tag = r.get("tag")
                    if not isinstance(tag, str):
                        continue
                    nm = tag[2:] if tag.startswith("2:") else tag
                    if nm not in writes:
                        continue
                    w0, w1, id1 = writes[nm]
                    o0, o1, id2 = overrides.get(nm, (None, None, None))
                    kd = kind_of[nm]
                    is_fn = kd == "fn"

                    def val(i_):
                        args = {"fn": ["1"], "infix": ["6", "4"], "prefix": ["4"], "postfix": ["4"]}[kd]
                        return {"ok": ["l", [["n", str(i_), 0]] + [["n", a_, 0] for a_ in args]]}

                    # what the program gives while the name is not registered: an unknown function fails; an unknown word is a plain
                    # name, so `6 w 4` / `w 4` are juxtaposed statements (value 4) and `4 w` ends in the unbound name (None)
                    unreg = {"infix": {"ok": ["n", "4", 0]}, "prefix": {"ok": ["n", "4", 0]}, "postfix": {"ok": ["z"]}}.get(kd)

                    for sg in r.get("segs", []):
                        res = sg["res"]
                        part["evaluations"] += sg["count"]
                        C["raced_reads"] = C.get("raced_reads", 0) + sg["count"]
                        if (isinstance(res, dict) and "err" in res and "NotRegistered" in res["err"] and is_fn) or (not is_fn and res == unreg):
                            stage = 0
                        elif res == val(id1):
                            stage = 1
                        elif id2 is not None and res == val(id2):
                            stage = 2
                        else:
                            viol(["torn-read", "stress"], "evaluating a program naming `%s` concurrently with its (re-)registration returned %s (%d times): neither the unregistered behaviour nor one of the registered handlers" % (nm, json.dumps(res), sg["count"]), None)
                            continue
                        prev_stage = stage_seen.get(nm, 0)
                        if stage < prev_stage:
                            viol(["non-monotonic-read", "stress"], "a thread saw `%s` in registration state %d and later in the older state %d" % (nm, prev_stage, stage), None)
                        elif stage == 0 and sg["last_t0"] > w1:
                            viol(["stale-read", "stress"], "an evaluation of `%s` called %.3f ms AFTER register returned still behaved as if it were unregistered (result %s)" % (nm, (sg["last_t0"] - w1) / 1e6, json.dumps(res)), None)
                        elif stage == 1 and sg["last_t1"] < w0:
                            viol(["future-read", "stress"], "an evaluation of `%s` that returned before register was called already saw it" % nm, None)
                        elif stage == 1 and o1 is not None and sg["last_t0"] > o1:
                            viol(["stale-read", "override"], "an evaluation of `%s` called %.3f ms after its re-registration returned still used the replaced handler" % (nm, (sg["last_t0"] - o1) / 1e6), None)
                        elif stage == 2 and sg["last_t1"] < o0:
                            viol(["future-read", "override"], "an evaluation of `%s` that returned before the re-registration was called already used the new handler" % nm, None)
                        else:
                            part["classes"].add("stress:%s:stage%d" % (kd, stage))
                        stage_seen[nm] = max(prev_stage, stage)
                    if len(r.get("segs", [])) >= 2:
                        C["reads_overlapping_a_registration"] = C.get("reads_overlapping_a_registration", 0) + 1
    C["distinct_interleavings"] = len(orders)
    part["classes"].update("order:" + o for o in list(orders)[:400])
    part["classes"] = sorted(part["classes"])
    return part


def run(rep, tier):
    rep.rule = RULE
    rep.assumptions = ["raced names are mentioned once per evaluation and raced replacements do not change precedence, so every generated history is linearizable iff the implementation is",
                       "the probe's timed wait only bounds how long the bad interleaving is offered; verdicts are on results vs the sequential reference, never on timing",
                       "data races / UB are the sanitizer tiers' business (TSan, Miri in the thorough tier)"]
    common.build("verifdbg")
    common.build("release")
    q = tier == "quick"
    shards = []
    nf = 1600 if q else 60000
    for i in range(16):
        shards.append(("firstuse", i, nf // 16, "release" if i % 2 else "verifdbg"))
    for i in range(16):
        shards.append(("forced", i, 16, "release" if i % 2 else "verifdbg"))
    if not q:
        for i in range(16, 48):
            shards.append(("forced", i % 16, 16, "release" if i % 2 else "verifdbg"))
    ns = 48 if q else 1600
    for i in range(16):
        shards.append(("stress", i, ns // 16, "release" if i % 2 else "verifdbg"))
    for i in range(16):
        shards.append(("regrace", i, 3 if q else 60, "release" if i % 2 else "verifdbg"))
        shards.append(("midreg", i, 12 if q else 240, "release" if i % 2 else "verifdbg"))
    for part in common.pmap(run_shard, shards):
        rep.merge(part)
    rep.extra["interleavings_seen"] = len([c for c in rep.classes if c.startswith("order:")])
    rep.extra["exhaustive"] = True
    rep.extra["exhaustive_space"] = "forced interleavings: all 6 (A first call) x 5 (stage) x 6 (B first call) = 180 combinations"
    rep.floor = 3000


def san_shards(tier):
    """data races / UB / deadlock: TSan on the native race workloads, Miri on miniatures (each process another schedule)"""
    return [("tsan", [("firstuse", 200 + i, 12, "tsan") for i in range(16)] + [("forced", i, 16, "tsan") for i in range(16)] + [("stress", 200 + i, 2, "tsan") for i in range(16)] + [("regrace", 200 + i, 2, "tsan") for i in range(16)] + [("midreg", 200 + i, 6, "tsan") for i in range(8)]),
            ("miri", [("firstuse", 300 + i, 2, "miri") for i in range(16)] + [("forced", i, 64, "miri") for i in range(32)] + [("stress", 300 + i, 1, "miri") for i in range(8)] + [("regrace", 300 + i, 1, "miri") for i in range(8)])]


def replay(path):
    d = json.load(open(path))
    steps = d["replay"].get("steps")
    if not steps:
        print("(stress histories are not replayable step by step; re-run `./check C13`)")
        return 0
    run = common.run_vexec(steps, common.workdir(PROP, "replay"), "replay", d["replay"].get("profile", "verifdbg"), timeout=300)
    print(common.crash_verdict(run, "replay"))
    print(json.dumps(run.steps())[:3000])
    print("(schedule-dependent: compare the records above with the message in the replay file)")
    return 0
