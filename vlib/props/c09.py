"""C09 — number literals and decimal arithmetic are exact.
Oracle: python integers / Fractions (shares no code with rust_decimal or f64); literals are compared on
(mantissa, scale) exactly as written, arithmetic on the exact rational value where that is representable."""
import itertools
import json
from fractions import Fraction
from .. import common, gen, ref, evalcheck

PROP = "C09"
RULE = ("literals: every digit string of length <= 4 with at most one inner dot (exhaustive), random literals with 1-28 significant digits at every "
        "scale 0-28, leading/trailing zeros, classic binary-float traps; pairs of such numbers under + - * % < <= > >= == != and the compound-assignment "
        "forms, biased to equal values at different scales, neighbours one unit in the last place apart, carries across 2^53/2^64/2^96 and big%small; "
        "malformed literals embedded in valid programs. distinct class = (operator, relation of operands, scale pair bucket) / literal (digits, scale)")
MAXD = gen.MAXD
OPS = ["+", "-", "*", "%", "<", "<=", ">", ">=", "==", "!="]
TRAPS = ["0.1", "0.2", "0.3", "1.1", "2.675", "0.0000000000000000000000000001", "1.10", "1.100", "007", "0.0", "00.50", "9007199254740993", "79228162514264337593543950335", "7.9228162514264337593543950335", "0.7", "1.15", "4.35", "1234567890.123456789"]
BAD = ["0.0000000000000000000000000001.", "0.0000000000000000000000000001.2.3", "12345678901234567890123456789.1.1", "0.0000000000000000000000000001e5", "79228162514264337593543950335.5.", "1.2.3", "1..2", "1.2.", "12e", "1e+", "1e-", "1.5.", "0.1.2", "1.2e", "3.e", "1.2.3.4", "0..", "5e+-2", "1e5e5"]
# malformed tails placed before, at and beyond the point where the 28-decimal / 96-bit precision is exhausted
for _nd in range(20, 36):
    for _tail in ("e5", "E5", "e+5", "e-5", "e", "E", ".5", ".", "..1", "e5.5"):
        BAD.append("0." + "0" * (_nd - 1) + "1" + _tail)
        BAD.append("0." + "0" * (_nd - 2) + "11" + _tail)
        BAD.append("7" * _nd + ".59" + _tail)
        BAD.append("79228162514264337593543950335"[: max(1, _nd - 6)] + "." + "3" * 7 + _tail)


INT_EDGES = sorted({sg * (v + d) for v in (0, 1, 2, 10, 1 << 31, 1 << 32, 1 << 63, 1 << 64) for d in (-1, 0, 1) for sg in (1, -1)})


def lit_parts(text):
    if "." in text:
        ip, fp = text.split(".")
    else:
        ip, fp = text, ""
    return int(ip + fp), len(fp)


def exhaustive_literals():
    out = []
    for n in range(1, 5):
        for ds in itertools.product("0123456789", repeat=n):
            s = "".join(ds)
            out.append(s)
            for p in range(1, n):
                out.append(s[:p] + "." + s[p:])
    return out


def rand_pair(rnd):
    """(a, b) decimal pairs (mantissa, scale) chosen to stress exactness"""
    k = gen.wchoice(rnd, [("rand", 4), ("eqscale", 2), ("ulp", 3), ("bigsmall", 2), ("carry", 2), ("small", 2), ("samedigits", 2), ("scalesum", 2.5), ("farscales", 3), ("align29", 3)])
    if k == "align29":
        # a short number and one with 24-28 decimals: aligning the short one overflows 96 bits for some implementations while the exact
        # sum / difference (up to 29 significant digits, below 2^96) is representable: 8 - 0.1000000000000000000000000001
        sb = rnd.randint(24, 28)
        mb = rnd.randrange(10 ** (sb - 1), 10 ** sb) if rnd.random() < 0.7 else rnd.choice([10 ** (sb - 1) + 1, 10 ** sb - 1, 10 ** (sb - 1) + 10 ** (sb - 28) if sb == 28 else 10 ** (sb - 1) + 7])
        mb = mb if rnd.random() < 0.7 else mb * rnd.randint(1, 7)
        mb = min(mb, MAXD)
        sa = rnd.choice([0, 0, 0, 1, 2, 3])
        hi = max(1, (MAXD // 10 ** (sb - sa)) - (mb // 10 ** (sb - sa)) - 1) if sb >= sa else 9
        ma = rnd.randint(1, max(1, min(hi, 10 ** (sa + 2)))) if rnd.random() < 0.8 else max(1, hi)
        if rnd.random() < 0.3:
            ma = -ma
        if rnd.random() < 0.3:
            mb = -mb
        return ((ma, sa), (mb, sb)) if rnd.random() < 0.5 else ((mb, sb), (ma, sa))
    if k == "farscales":
        # operands whose scales are far apart: a wide dividend and a divisor with 20-28 decimals (and the reverse)
        sb = rnd.randint(18, 28)
        mb = rnd.choice([10 ** sb + 1, 10 ** sb + rnd.randint(1, 10 ** 6), rnd.randint(1, 9) * 10 ** sb + rnd.randint(0, 10 ** 9), rnd.randint(1, 10 ** min(sb + 1, 28))])
        mb = min(mb, MAXD)
        ma = rnd.choice([1 << 32, (1 << 32) - 1, 1 << 63, (1 << 63) - 1, 1 << 64, MAXD, rnd.randint(1, 1 << 40), rnd.randint(1 << 40, MAXD), 10 ** rnd.randint(9, 28)])
        sa = rnd.choice([0, 0, 0, 1, 2])
        if rnd.random() < 0.3:
            ma = -ma
        if rnd.random() < 0.2:
            mb = -mb
        return ((ma, sa), (mb, sb)) if rnd.random() < 0.8 else ((mb, sb), (ma, sa))
    if k == "samedigits":
        # the same digit string at different scales (values differ by a power of ten)
        nd = rnd.randint(20, 28)
        m = rnd.choice([10 ** nd - 1, rnd.randrange(10 ** (nd - 1), min(10 ** nd, MAXD)), int("9" * nd)])
        m = min(m, MAXD)
        s1 = rnd.randint(0, 3)
        s2 = s1 + rnd.randint(1, 4)
        z = rnd.choice([0, 0, 1, 2])
        if m * 10 ** z <= MAXD:
            return (m, s1), (m * 10 ** z, s2)
        return (m, s1), (m, s2)
    if k == "scalesum":
        # operand scales sum past 28 while the exact result is still representable (trailing zeros / zero)
        s1 = rnd.randint(15, 28)
        m1 = rnd.choice([1, 2, 5, 3, 0, rnd.randint(1, 10 ** 6)])
        t = rnd.randint(1, 12)
        c = rnd.choice([1, 1, 2, 3, 10, 0, 25])
        a, b = (m1, s1), (c * 10 ** t, t)
        if rnd.random() < 0.3:
            a, b = (rnd.choice([5, 25, 125]), rnd.randint(10, 15)), (rnd.choice([2, 4, 8]) * 10 ** 0, rnd.randint(14, 18))
        return (a, b) if rnd.random() < 0.5 else (b, a)
    if k == "rand":
        return gen.rand_num(rnd), gen.rand_num(rnd)
    if k == "eqscale":
        m, s = gen.rand_num(rnd)
        s = min(s, 20)
        z = rnd.randint(0, 28 - s)
        m2 = m * 10 ** z
        if abs(m2) > MAXD:
            return (m, s), (m, s)
        return (m, s), (m2, s + z)
    if k == "ulp":
        m, s = gen.rand_num(rnd)
        d = rnd.choice([1, -1, 2])
        m2 = m + d
        if abs(m2) > MAXD:
            m2 = m - 1
        return (m, s), (m2, s)
    if k == "bigsmall":
        nd = rnd.randint(20, 28)
        m = rnd.randrange(10 ** (nd - 1), min(10 ** nd, MAXD))
        s = rnd.randint(0, 3)
        m2 = rnd.randint(1, 999)
        s2 = rnd.randint(0, 6)
        return (m, s), (m2, s2)
    if k == "carry":
        base = rnd.choice([1 << 53, 1 << 63, 1 << 64, MAXD, 10 ** 28, (1 << 96) // 2])
        m = base + rnd.randint(-2, 2)
        m = max(min(m, MAXD), -MAXD)
        return (m, rnd.choice([0, 0, 1, 5])), (rnd.randint(-3, 3), rnd.choice([0, 0, 1, 5]))
    a = (rnd.randint(-200, 200), rnd.randint(0, 3))
    b = (rnd.randint(-200, 200), rnd.randint(0, 3))
    return a, b


def relation(a, b):
    fa, fb = Fraction(a[0], 10 ** a[1]), Fraction(b[0], 10 ** b[1])
    return "eq" if fa == fb else ("lt" if fa < fb else "gt")


CARRIERS = [
    ("[%s]", lambda v: v[1][0]), ("[0, %s, 1.0]", lambda v: v[1][1]), ("{%s: 1}", lambda v: v[1][0][0]), ("{'k': %s}", lambda v: v[1][0][1]), ("{1: 2, %s: 'v'}", lambda v: v[1][1][0]),
    ("['Zoë', %s]", lambda v: v[1][1]), ("'東京' == 'x' ? 0 : %s", lambda v: v), ("{'Kraków': %s}", lambda v: v[1][0][1]), ("'é😀' ; %s", lambda v: v), ("['日本', [%s]]", lambda v: v[1][1][1][0]),
    ("x = %s; x", lambda v: v), ("x = [%s]; x", lambda v: v[1][0]), ("true ? %s : 0", lambda v: v), ("(%s)", lambda v: v), ("\n\t %s \r\n", lambda v: v), ("0; %s", lambda v: v),
    ("[[], {}, '', %s]", lambda v: v[1][3]), ("{[%s]: 0}", lambda v: v[1][0][0][1][0]), ("é = %s; [é]", lambda v: v[1][0]), ("{%s: %s}", lambda v: v[1][0][1]), ("{%s: %s}", lambda v: v[1][0][0]),
]


def litpos_ok(res, lit, idx):
    m, s_ = lit_parts(lit)
    try:
        got = CARRIERS[idx][1]((res or {}).get("ok"))
    except (TypeError, IndexError, KeyError):
        got = None
    return got is not None and got[0] == "n" and int(got[1]) == m and got[2] == s_, got


def run_shard(desc):
    kind, si, nshards, n, profile = desc
    rnd = common.rng(PROP, kind, si)
    part = {"evaluations": 0, "classes": set(), "violations": [], "samples": [], "abstained": 0, "inconclusive": [], "counts": {"wl_" + kind: 0}}
    wd = common.workdir(PROP)
    if kind in ("lit", "litrand", "littwin"):
        if kind == "littwin":
            # families of literals of equal length that differ in one digit only (every position x every digit),
            # evaluated in one process in shuffled order: each must still evaluate to itself
            lits = []
            for _ in range(n):
                L = rnd.randint(1, 12)
                base = [rnd.choice("0123456789") for _ in range(L)]
                dot = rnd.randint(1, L - 1) if L > 2 and rnd.random() < 0.6 else None
                fam = set()
                for pos in range(L):
                    for dgt in "0123456789":
                        v = list(base)
                        v[pos] = dgt
                        s_ = "".join(v)
                        if dot:
                            s_ = s_[:dot] + "." + s_[dot:]
                        fam.add(s_)
                fam = sorted(fam)
                rnd.shuffle(fam)
                lits += fam
        elif kind == "lit":
            lits = [l for i, l in enumerate(exhaustive_literals() + TRAPS) if i % nshards == si]
        else:
            lits = []
            for _ in range(n):
                m, s = gen.rand_num(rnd)
                lits.append(ref.num_text(abs(m), s))
                if rnd.random() < 0.3:
                    lits[-1] = "0" * rnd.randint(1, 3) + lits[-1]
        steps = [{"op": "exec", "text": l} for l in lits]
        recs, events, _ = common.run_batch(steps, wd, "%s-%d" % (kind, si), profile)
        for l, r in zip(lits, recs):
            if r is None:
                continue
            part["evaluations"] += 1
            part["counts"]["wl_" + kind] += 1
            m, s = lit_parts(l)
            res = r.get("res", {})
            got = res.get("ok")
            if got is not None and got[0] == "n" and int(got[1]) == m and got[2] == s:
                part["classes"].add("lit:%dd:s%d" % (len(str(m)), s))
                if len(part["samples"]) < 2:
                    part["samples"].append({"literal": l, "mantissa": got[1], "scale": got[2]})
            elif len(part["violations"]) < 40:
                part["violations"].append({"sig": ["literal", "digits" if got is None or got[0] != "n" or Fraction(int(got[1]), 10 ** got[2]) != Fraction(m, 10 ** s) else "scale"],
                                           "what": "literal `%s` evaluates to %s, expected mantissa %d scale %d" % (l, json.dumps(res or r.get("perr")), m, s),
                                           "replay": {"steps": [{"op": "exec", "text": l}], "expect": ["n", str(m), s]}})
    elif kind == "litpos":
        # the same literals in every syntactic position of a carrier program (list element, map key, map value, branch, argument
        # list, assignment, behind multi-byte string literals, behind line breaks): digits and scale must arrive unchanged
        items = []
        for _ in range(n):
            m, s_ = gen.rand_num(rnd)
            lit = ref.num_text(abs(m), s_)
            if rnd.random() < 0.3:
                lit = rnd.choice(["1.10", "2.50", "2000.00", "0.0", "0.000", "100", "1.0000000000000000000000000000", "12.5", "7.90"])
            ci = rnd.randrange(len(CARRIERS))
            items.append((CARRIERS[ci][0].replace("%s", lit), lit, ci))
        recs, events, _ = common.run_batch([{"op": "exec", "text": t_} for t_, _, _ in items], wd, "litpos-%d" % si, profile)
        for (text, lit, ci), r in zip(items, recs):
            if r is None:
                continue
            part["evaluations"] += 1
            part["counts"]["wl_litpos"] += 1
            m, s_ = lit_parts(lit)
            res = r.get("res", {})
            okk, got = litpos_ok(res, lit, ci)
            if okk:
                part["classes"].add("litpos:%s" % text.replace(lit, "L")[:24])
            elif len(part["violations"]) < 40:
                part["violations"].append({"sig": ["literal-in-position", text.replace(lit, "L")[:24]], "what": "in `%s` the literal %s arrives as %s (whole result %s), expected mantissa %d scale %d" % (text, lit, json.dumps(got), json.dumps(res or r.get("perr"), ensure_ascii=False)[:300], m, s_),
                                           "replay": {"steps": [{"op": "exec", "text": text}], "litpos": [lit, ci]}})
    elif kind == "bad":
        progs = []
        for b in BAD:
            for tmpl in ("%s", "1 + %s", "[%s]", "x = %s; x", "f(%s)", "%s * 2"):
                progs.append(tmpl % b)
        steps = [{"op": "parse", "text": p} for p in progs]
        recs, events, _ = common.run_batch(steps, wd, "bad-%d" % si, profile)
        for p, r in zip(progs, recs):
            if r is None:
                continue
            part["evaluations"] += 1
            part["counts"]["wl_bad"] += 1
            if r.get("p") == "err":
                part["classes"].add("bad:" + p)
            else:
                part["violations"].append({"sig": ["malformed-literal-accepted"], "what": "`%s` contains a malformed number but parse gave %s" % (p, r.get("p")), "replay": {"steps": [{"op": "parse", "text": p, "want": "a"}], "expect": "err"}})
    else:
        progs, labels = [], []
        # every shard starts with its slice of the full product of machine-integer edge values (where an implementation may switch
        # to a native integer path) x operators
        edge = [(x, a_, b_, o_) for x, (a_, b_, o_) in enumerate((a_, b_, o_) for a_ in INT_EDGES for b_ in INT_EDGES for o_ in OPS) if x % 20 == si % 20]
        for k_ in range(n):
            a, b = rand_pair(rnd)
            op = rnd.choice(OPS)
            form = rnd.random()
            if k_ < len(edge):
                _, a, b, op = edge[k_]
                a, b = (a, 0), (b, 0)
                form = 0.12 + (form * 0.88)
            if form < 0.04:
                # a zero with the sign bit set (only prefix minus makes one) against zeros and tiny numbers of either sign
                z = ["un", "-", ["num", "0", rnd.choice([0, 0, 2, 28])]] if rnd.random() < 0.7 else ["un", "-", ["bin", "-", gen.num_lit(*a), gen.num_lit(*a)]]
                o = rnd.choice([["num", "0", rnd.choice([0, 1, 28])], ["un", "-", ["num", "0", 0]], gen.num_lit(1, 28), gen.num_lit(-1, 28), gen.num_lit(*b)])
                t = ["bin", op, z, o] if rnd.random() < 0.5 else ["bin", op, o, z]
                vars_ = {}
            elif form < 0.12 and op in ("<", "<=", ">", ">=", "==", "!="):
                # the negated forms, written both ways: `a not >= b` and `not (a >= b)`
                t = ["un", "not", ["bin", op, gen.num_lit(*a), gen.num_lit(*b)]]
                vars_ = {}
            elif form < 0.6:
                t = ["bin", op, gen.num_lit(*a), gen.num_lit(*b)]
                vars_ = {}
            elif form < 0.8 or op not in ("+", "-", "*", "%"):
                t = ["bin", op, ["ref", "x"], ["ref", "y"]]
                vars_ = {"x": ["n", str(a[0]), a[1]], "y": ["n", str(b[0]), b[1]]}
            else:
                t = ["stmt", [["bin", "=", ["ref", "x"], gen.num_lit(*a)], ["bin", op + "=", ["ref", "x"], gen.num_lit(*b)], ["ref", "x"]]]
                vars_ = {}
            progs.append({"tree": t, "text": ref.Renderer(infix_not=(lambda node, _k=len(progs): _k % 2 == 0)).render(t), "vars": vars_})
            labels.append("%s%s:%s:s%d,s%d" % ("not " if t[0] == "un" else "", op, relation(a, b), min(a[1], 9) // 3, min(b[1], 9) // 3))
        res, events = evalcheck.run_programs(PROP, "pair-%d" % si, progs, profile)
        for p, label, (st, detail, rec, exp, ev) in zip(progs, labels, res):
            if st in ("norecord", "skip-c02"):
                continue
            part["evaluations"] += 1
            part["counts"]["wl_pair"] += 1
            if st == "abstain":
                part["abstained"] += 1
            elif st == "pass":
                part["classes"].add(label)
                if len(part["samples"]) < 2:
                    part["samples"].append({"program": p["text"], "vars": p["vars"], "result": evalcheck.fmt_outcome(exp)})
            elif len(part["violations"]) < 60:
                part["violations"].append({"sig": [st, label.split(":")[0], label.split(":")[1]], "what": "`%s` %s: %s" % (p["text"], json.dumps(p["vars"]) if p["vars"] else "", detail),
                                           "replay": {"program": p["text"], "tree": p["tree"], "vars": p["vars"], "profile": profile}})
    for kind_, detail, k in events:
        if kind_ in ("signal", "hang", "deadlock"):
            part["violations"].append({"sig": ["crash", kind_], "what": detail, "replay": None})
        else:
            part["inconclusive"].append("%s: %s" % (kind_, detail))
    part["classes"] = sorted(part["classes"])
    return part


def run(rep, tier):
    rep.rule = RULE
    rep.assumptions = ["exactness is demanded only when the exact rational result has <= 28 decimals and a mantissa < 2^96; overflow is C04's business; `/` is out of scope",
                       "scientific notation, more than 28 fractional digits and `1.` are left open (skipped)"]
    common.build("verifdbg")
    common.build("release")
    shards = [("bad", 0, 1, 0, "verifdbg")]
    for i in range(8):
        shards.append(("lit", i, 8, 0, "release" if i % 2 else "verifdbg"))
    nl = 20000 if tier == "quick" else 400000
    np_ = 200000 if tier == "quick" else 6000000
    per = 10000 if tier == "quick" else 100000
    for i in range(nl // per):
        shards.append(("litrand", i, 0, per, "release" if i % 2 else "verifdbg"))
    for i in range(8):
        shards.append(("littwin", i, 0, 60 if tier == "quick" else 1500, "release" if i % 2 else "verifdbg"))
        shards.append(("litpos", i, 0, 1500 if tier == "quick" else 60000, "release" if i % 2 else "verifdbg"))
    for i in range(np_ // per):
        shards.append(("pair", i, 0, per, "release" if i % 2 else "verifdbg"))
    for part in common.pmap(run_shard, shards):
        rep.merge(part)
    rep.extra["exhaustive"] = True
    rep.extra["exhaustive_space"] = "all decimal literals of <= 4 digits with at most one inner dot (%d literals)" % len(exhaustive_literals())
    rep.floor = 10000


def replay(path):
    d = json.load(open(path))
    r = d["replay"]
    if "steps" in r:
        wd = common.workdir(PROP, "replay")
        run = common.run_vexec(r["steps"], wd, "replay", "verifdbg")
        rec = run.steps()[0]
        print(json.dumps(rec, ensure_ascii=False))
        if "litpos" in r:
            ok = litpos_ok(rec.get("res"), r["litpos"][0], r["litpos"][1])[0]
        else:
            ok = (rec.get("p") == "err") if r.get("expect") == "err" else (rec.get("res", {}).get("ok") == r.get("expect"))
    else:
        res, _ = evalcheck.run_programs(PROP, "replay", [{"tree": r["tree"], "text": r["program"], "vars": r["vars"]}], r.get("profile", "verifdbg"))
        print(res[0][0], res[0][1])
        ok = not res[0][0].startswith("viol")
    if not ok:
        print("VIOLATION property=%s replay=%s" % (PROP, path))
        return 1
    return 0
