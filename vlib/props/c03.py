"""C03 — built-in operators and functions compute the documented values.
Oracle: R-EVAL (python big integers / Fractions, independent of rust_decimal) on generated typed trees."""
import itertools
import json
from .. import common, gen, ref, evalcheck

PROP = "C03"
RULE = ("exhaustive cross product: every built-in infix operator (and `x op= y; x`), prefix and postfix operator over all pairs of 27 context values "
        "of every type (numbers incl. negative/fractional/extreme/integral-with-scale, booleans, strings, lists, map, None), aggregates over all "
        "argument lists of length 0-3 from an 8-value pool, then random typed trees of depth <= 5 with a fraction of ill-typed operands. "
        "distinct class = (operator, operand value classes, outcome class)")

VARNAMES = sorted(gen.TypedGen.VARS) + ["nil"]
AGG_POOL = ["n0", "n1", "nm7", "nh", "n3_0", "big", "bt", "sa"]


def cross_programs():
    out = []
    for op in sorted(ref.BUILTIN_INFIX):
        setter = ref.BUILTIN_INFIX[op][2] == "SETTER"
        for a in VARNAMES:
            for b in VARNAMES:
                t = ["bin", op, ["ref", a], ["ref", b]]
                if setter:
                    t = ["stmt", [t, ["ref", a]]]
                out.append((t, "%s|%s|%s" % (op, a, b)))
    for a in VARNAMES:
        for b in VARNAMES:
            for op in ("in", "==", "<"):
                out.append((["un", "not", ["bin", op, ["ref", a], ["ref", b]]], "not %s|%s|%s" % (op, a, b)))
    for op in ref.BUILTIN_PREFIX:
        for a in VARNAMES:
            out.append((["un", op, ["ref", a]], "prefix %s|%s" % (op, a)))
    for op in ref.BUILTIN_POSTFIX:
        for a in VARNAMES:
            out.append((["post", ["ref", a], op], "postfix %s|%s" % (op, a)))
    for f in ref.BUILTIN_FUNCS:
        for n in range(0, 4):
            for args in itertools.product(AGG_POOL, repeat=n):
                out.append((["fn", f, [["ref", x] for x in args]], "%s()|%s" % (f, ",".join(args))))
    for op in ("AND", "OR"):
        for n in range(0, 4):
            for args in itertools.product(["bt", "bf", "n1"], repeat=n):
                out.append((["un", op, ["list", [["ref", x] for x in args]]], "%s[]|%s" % (op, ",".join(args))))
    for c in VARNAMES:
        out.append((["tern", ["ref", c], ["ref", "n1"], ["ref", "sa"]], "?:|%s" % c))
    return out


def run_shard(desc):
    kind, si, nshards, n, profile = desc
    rnd = common.rng(PROP, kind, si)
    tg = gen.TypedGen(rnd)
    progs = []
    labels = []
    if kind == "cross":
        for i, (t, label) in enumerate(cross_programs()):
            if i % nshards == si:
                progs.append({"tree": t, "text": ref.Renderer().render(t)})
                labels.append(label)
    elif kind == "divexact":
        # quotients that are exactly representable must come out exact: a = q * b is computed with big integers
        from fractions import Fraction
        from . import c09
        while len(progs) < n:
            (mq, sq), (mb, sb) = c09.rand_pair(rnd)
            if mb == 0:
                continue
            a = Fraction(mq, 10 ** sq) * Fraction(mb, 10 ** sb)
            pa = ref.dec_parts(a)
            if pa is None:
                continue
            t = ["bin", "/", gen.num_lit(*pa), gen.num_lit(mb, sb)]
            if rnd.random() < 0.3:
                t = ["stmt", [["bin", "=", ["ref", "x"], gen.num_lit(*pa)], ["bin", "/=", ["ref", "x"], gen.num_lit(mb, sb)], ["ref", "x"]]]
            progs.append({"tree": t, "text": ref.Renderer().render(t)})
            labels.append(None)
            # and the remainder of the same kind of pairs (operands whose scales are far apart included)
            (m1, s1), (m2, s2) = c09.rand_pair(rnd)
            if m2 != 0:
                t = ["bin", "%", gen.num_lit(m1, s1), gen.num_lit(m2, s2)]
                progs.append({"tree": t, "text": ref.Renderer().render(t)})
                labels.append(None)
    elif kind == "member":
        # membership / equality over lists of every length 0..40 (and a few long ones): the needle equals exactly one element, written at
        # another scale (1 vs 1.0 vs 1.000), possibly inside a nested list or map, at the first / a middle / the last position, or is absent
        def twin(v):
            if v[0] == "num":
                k = rnd.choice([1, 1, 2, 3, 10])
                return ["num", str(int(v[1]) * 10 ** k), v[2] + k] if v[2] + k <= 28 and abs(int(v[1])) * 10 ** k < 2 ** 96 else v
            if v[0] == "un":
                return ["un", v[1], twin(v[2])]
            if v[0] == "list":
                return ["list", [twin(x) for x in v[1]]]
            if v[0] == "map":
                return ["map", [[kk, twin(x)] for kk, x in v[1]]]
            return v

        def value(depth=0):
            k = gen.wchoice(rnd, [("num", 6), ("str", 2), ("bool", 1), ("list", 1.5 if depth < 2 else 0), ("map", 1 if depth < 2 else 0)])
            if k == "num":
                return gen.num_lit(rnd.randint(-30, 3000), rnd.choice([0, 0, 1, 2]))
            if k == "str":
                return ["str", rnd.choice(["a", "b", "1", "1.0", "", "k%d" % rnd.randint(0, 50)])]
            if k == "bool":
                return ["bool", rnd.random() < 0.5]
            if k == "list":
                return ["list", [value(depth + 1) for _ in range(rnd.randint(0, 3))]]
            return ["map", [[["str", "k%d" % i], value(depth + 1)] for i in range(rnd.randint(1, 2))]]

        while len(progs) < n:
            m = rnd.choice(list(range(0, 41)) + [64, 65, 100, 257])
            elems = []
            seen = set()
            while len(elems) < m:
                v = value()
                key = json.dumps(v)
                if key in seen:
                    continue
                seen.add(key)
                elems.append(v)
            mode = rnd.choice(["twin", "twin", "same", "absent"])
            if m == 0 or mode == "absent":
                needle = gen.num_lit(rnd.randint(5000, 6000), rnd.choice([0, 1]))
            else:
                pos = rnd.choice([0, m - 1, rnd.randrange(m)])
                needle = twin(elems[pos]) if mode == "twin" else elems[pos]
            lst = ["list", elems]
            if rnd.random() < 0.35:
                # structures that differ in exactly one leaf (a map value, a nested element, a key, a trailing element): == must see it
                def mutate(v):
                    if v[0] == "list" and v[1]:
                        i_ = rnd.randrange(len(v[1]))
                        return ["list", v[1][:i_] + [mutate(v[1][i_])] + v[1][i_ + 1:]]
                    if v[0] == "map" and v[1]:
                        i_ = rnd.randrange(len(v[1]))
                        kk, vv = v[1][i_]
                        return ["map", v[1][:i_] + [[kk, mutate(vv)] if rnd.random() < 0.7 else [["str", "other"], vv]] + v[1][i_ + 1:]]
                    if v[0] == "num":
                        return ["num", str(int(v[1]) + 1), v[2]]
                    if v[0] == "un":
                        return ["un", v[1], mutate(v[2])]
                    if v[0] == "str":
                        return ["str", v[1] + "x"]
                    if v[0] == "bool":
                        return ["bool", not v[1]]
                    return ["num", "424242", 0]
                base = rnd.choice([lst, ["map", [[["str", "k%d" % i_], e_] for i_, e_ in enumerate(elems[:6])]], ["list", [["map", [[["str", "a"], e_]]] for e_ in elems[:5]]], ["map", [[["str", "a"], ["num", "1", 0]]]]])
                other = mutate(base)
                t = rnd.choice([["bin", "==", base, other], ["bin", "!=", base, other], ["bin", "in", other, ["list", [base, twin(base)]]], ["bin", "==", ["list", [base, other]], ["list", [twin(base), twin(other)]]],
                                ["un", "not", ["bin", "==", base, other]]])
                progs.append({"tree": t, "text": ref.Renderer().render(t)})
                labels.append(None)
                continue
            t = rnd.choice([
                ["bin", "in", needle, lst],
                ["un", "not", ["bin", "in", needle, lst]],
                ["stmt", [["bin", "=", ["ref", "xs"], lst], ["bin", "in", needle, ["ref", "xs"]]]],
                ["bin", "==", lst, twin(lst)],
                ["bin", "!=", ["list", [lst, needle]], ["list", [twin(lst), twin(needle)]]],
                ["bin", "in", ["list", [needle]], ["list", [["list", [e]] for e in elems]]],
            ])
            progs.append({"tree": t, "text": ref.Renderer().render(t)})
            labels.append(None)
    elif kind == "long":
        n_ = lambda v: ["num", str(v), 0]
        for _ in range(n):
            k = rnd.choice(["sum", "args", "list", "stmts", "tern", "andor", "mixed", "inlist", "cmpchain"])
            m = rnd.choice([64, 65, 100, 128, 129, 200, 300])
            if k == "sum":
                t = n_(1)
                for i in range(2, m + 1):
                    t = ["bin", rnd.choice(["+", "-", "+"]), t, n_(i)]
            elif k == "args":
                t = ["fn", rnd.choice(["sum", "max", "min"]), [gen.num_lit(rnd.randint(-50, 50), rnd.choice([0, 1])) for _ in range(m)]]
            elif k == "list":
                t = ["bin", "in", n_(m), ["list", [n_(i) for i in range(1, m + rnd.choice([0, 1]))]]]
            elif k == "stmts":
                t = ["stmt", [["bin", "=", ["ref", "acc"], n_(0)]] + [["bin", "+=", ["ref", "acc"], n_(i)] for i in range(1, m)] + [["ref", "acc"]]]
            elif k == "tern":
                t = n_(0)
                for i in range(m):
                    t = ["tern", ["bin", "==", ["ref", "n1"], n_(2 if i else 1)], n_(i), t] if rnd.random() < 0.5 else ["tern", ["bool", False], n_(i), t]
            elif k == "andor":
                t = ["un", rnd.choice(["AND", "OR"]), ["list", [["bool", rnd.random() < 0.9] for _ in range(m)]]]
            elif k == "inlist":
                t = ["un", "not", ["bin", "in", ["str", "k"], ["list", [["str", "s%d" % i] for i in range(m)] + ([["str", "k"]] if rnd.random() < 0.5 else [])]]]
            elif k == "cmpchain":
                t = ["bool", True]
                for i in range(m):
                    t = ["bin", rnd.choice(["&&", "||"]), t, ["bin", rnd.choice(["<", ">=", "=="]), n_(i), n_(rnd.randint(0, m))]]
            else:
                t = n_(1)
                for i in range(m):
                    t = ["bin", rnd.choice(["+", "*", "-"]), n_(rnd.randint(1, 3)), ["un", "-", t]] if i % 2 else ["post", ["list", [t]][1][0], "++"]
            progs.append({"tree": t, "text": ref.Renderer().render(t)})
            labels.append(None)
    else:
        for _ in range(n):
            t = tg.gen("A", rnd.randint(1, 5))
            progs.append({"tree": t, "text": ref.Renderer(rnd=rnd, extra_parens=0.05).render(t)})
            labels.append(None)
    res, events = evalcheck.run_programs(PROP, "%s-%d" % (kind, si), progs, profile, ctx_vars=tg.ctx_json())
    part = {"evaluations": 0, "classes": set(), "violations": [], "samples": [], "abstained": 0, "inconclusive": [], "counts": {"wl_" + kind: 0, "skip_c02": 0, "expected_err": 0, "expected_ok": 0}}
    for p, label, (st, detail, rec, exp, ev) in zip(progs, labels, res):
        if st == "norecord":
            continue
        if st == "skip-c02":
            part["counts"]["skip_c02"] += 1
            continue
        part["evaluations"] += 1
        part["counts"]["wl_" + kind] += 1
        if st == "abstain":
            part["abstained"] += 1
            continue
        if st == "pass":
            part["counts"]["expected_" + exp[0]] = part["counts"].get("expected_" + exp[0], 0) + 1
            cls = label.split("|")[0] if label else evalcheck.top_op(p["tree"])
            part["classes"].add("%s:%s:%s" % (cls, label.split("|", 1)[1] if label else "tree", exp[0] if exp[0] != "ok" else evalcheck.value_class(exp[1])) if label else "%s:%s" % (cls, exp[0] if exp[0] != "ok" else evalcheck.value_class(exp[1])))
            if len(part["samples"]) < 2:
                part["samples"].append({"program": p["text"], "result": evalcheck.fmt_outcome(exp)})
            continue
        if len(part["violations"]) < 80:
            sig = [st, label.split("|")[0] if label else evalcheck.top_op(p["tree"])]
            if label:
                vals = [tg.VARS.get(x, ref.V_NONE) for x in label.split("|")[1:]]
                sig.append([evalcheck.value_class(v) for v in vals])
            part["violations"].append({"sig": sig, "what": "`%s` (context: the C03 value pool): %s" % (p["text"], detail),
                                       "replay": {"program": p["text"], "tree": p["tree"], "profile": profile}})
    for kind_, detail, k in events:
        if kind_ in ("signal", "hang", "deadlock"):
            part["violations"].append({"sig": ["crash", kind_], "what": detail, "replay": None})
        else:
            part["inconclusive"].append("%s: %s" % (kind_, detail))
    part["classes"] = sorted(part["classes"])
    return part


def run(rep, tier):
    rep.rule = RULE
    rep.assumptions = ["R-EVAL encodes the documented semantics; it abstains on inexact quotients, unrepresentable exact results, empty sum/mul/AND/OR",
                       "error variants are not compared, only Ok-vs-Err and the Ok payload (numbers by exact value)"]
    common.build("verifdbg")
    common.build("release")
    shards = []
    for i in range(16):
        shards.append(("cross", i, 16, 0, "release" if i % 2 else "verifdbg"))
    n = 120000 if tier == "quick" else 3000000
    per = 5000 if tier == "quick" else 50000
    for i in range(n // per):
        shards.append(("tree", i, 0, per, "release" if i % 2 else "verifdbg"))
    for i in range(16):
        shards.append(("long", i, 0, 40 if tier == "quick" else 1000, "release" if i % 2 else "verifdbg"))
        shards.append(("divexact", i, 0, 500 if tier == "quick" else 20000, "release" if i % 2 else "verifdbg"))
        shards.append(("member", i, 0, 400 if tier == "quick" else 16000, "release" if i % 2 else "verifdbg"))
    for part in common.pmap(run_shard, shards):
        rep.merge(part)
    rep.extra["exhaustive"] = True
    rep.extra["exhaustive_space"] = "operator x value-pool cross product (%d programs)" % len(cross_programs())
    rep.floor = 10000


def san_shards(tier):
    return [("miri", [("tree", 500 + i, 0, 30, "miri") for i in range(16)])]


def replay(path):
    d = json.load(open(path))
    r = d["replay"]
    tg = gen.TypedGen(common.rng("replay"))
    res, _ = evalcheck.run_programs(PROP, "replay", [{"tree": r["tree"], "text": r["program"]}], r.get("profile", "verifdbg"), ctx_vars=tg.ctx_json())
    st, detail, rec, exp, ev = res[0]
    print(st, detail)
    print(json.dumps(rec, ensure_ascii=False))
    if st.startswith("viol"):
        print("VIOLATION property=%s replay=%s" % (PROP, path))
        return 1
    return 0
