"""C02 — operators group exactly by the documented precedence and associativity.
Oracle: R-PARSE (reference precedence climbing over reference tokens) vs the AST the crate returns."""
import itertools
import json
from .. import common, gen, ref

PROP = "C02"
INFIX = sorted(ref.BUILTIN_INFIX)
RULE = ("exhaustive chains `a O1 b O2 c [O3 d]` over all 32 built-in infix operators with every legal subset negated by `not`; random reference "
        "trees (all node kinds) rendered with minimal + redundant parentheses; random flat token walks. distinct class = (parent operator, child "
        "operator, side, negation) pair observed in an expected AST, plus conditional/prefix/postfix nesting classes")


def shape(a):
    """abstract a tree: leaves -> 'a'"""
    k = a[0]
    if k in ("num", "bool", "str", "ref"):
        return "a"
    if k == "bin":
        return [a[1], shape(a[2]), shape(a[3])]
    if k == "un":
        return ["u:" + a[1], shape(a[2])]
    if k == "post":
        return ["p:" + a[2], shape(a[1])]
    if k == "tern":
        return ["?", shape(a[1]), shape(a[2]), shape(a[3])]
    if k == "fn":
        return ["f"] + [shape(x) for x in a[2]]
    if k in ("list", "stmt"):
        return [k] + [shape(x) for x in a[1]]
    if k == "map":
        return ["m"] + [[shape(x), shape(y)] for x, y in a[1]]
    return k


def classes_of(a, out):
    k = a[0]
    if k == "bin":
        for side, c in (("L", a[2]), ("R", a[3])):
            ck = c[0]
            if ck == "bin":
                out.add("bin:%s>%s:%s" % (a[1], c[1], side))
            elif ck == "un" and c[1] == "not" and c[2][0] == "bin":
                out.add("bin:%s>not %s:%s" % (a[1], c[2][1], side))
            else:
                out.add("bin:%s>%s:%s" % (a[1], ck, side))
            classes_of(c, out)
    elif k == "un":
        out.add("un:%s>%s" % (a[1], a[2][0] if a[2][0] != "bin" else "bin " + a[2][1]))
        classes_of(a[2], out)
    elif k == "post":
        out.add("post>%s" % a[1][0])
        classes_of(a[1], out)
    elif k == "tern":
        for i, c in enumerate(a[1:]):
            out.add("tern%d>%s" % (i, c[0] if c[0] != "bin" else "bin " + c[1]))
            classes_of(c, out)
    elif k == "fn":
        for c in a[2]:
            classes_of(c, out)
    elif k in ("list", "stmt"):
        for c in a[1]:
            classes_of(c, out)
    elif k == "map":
        for x, y in a[1]:
            classes_of(x, out)
            classes_of(y, out)


LAYOUTS = [" ", "\n", " ", "\t", " ", " \r\n ", " ", "\n  "]


def chain_items(n_ops, lo, hi):
    """token texts for chains number lo..hi (index into the product space)"""
    ops = INFIX
    combos = itertools.product(ops, repeat=n_ops)
    idx = 0
    for combo in combos:
        for nots in itertools.product((False, True), repeat=n_ops):
            if any(nt and op in ref.BUILTIN_PREFIX for nt, op in zip(nots, combo)):
                continue
            if lo <= idx < hi:
                toks = ["a"]
                for i, (op, nt) in enumerate(zip(combo, nots)):
                    if nt:
                        toks.append("not")
                    toks.append(op)
                    toks.append("bcde"[i])
                # the layout rotates with the index: blanks, line breaks, tabs, CR LF between the same tokens
                yield LAYOUTS[idx % len(LAYOUTS)].join(toks)
            idx += 1
            if idx >= hi:
                return


def count_chains(n_ops):
    c = 0
    for combo in itertools.product(INFIX, repeat=n_ops):
        k = sum(1 for op in combo if op not in ref.BUILTIN_PREFIX)
        c += 2 ** k
    return c


def flat_walk(rnd):
    """random well-formed flat token sequence: operand (op operand)* with prefix/postfix decorations
    and an optional trailing conditional"""
    def operand():
        t = []
        for _ in range(gen.wchoice(rnd, [(0, 6), (1, 2), (2, 1)])):
            t.append(rnd.choice(ref.BUILTIN_PREFIX))
        t.append(rnd.choice(["a", "b", "1", "2.5", "'s'", "true", "x1", "f(1)", "[1, 2]", "(c)", "{1: 2}"]))
        if rnd.random() < 0.2:
            t.append(rnd.choice(["++", "--"]))
        return t

    def seq(n):
        t = operand()
        for _ in range(n):
            op = rnd.choice(INFIX)
            if rnd.random() < 0.15 and op not in ref.BUILTIN_PREFIX:
                t.append("not")
            t.append(op)
            t += operand()
        return t

    t = seq(rnd.randint(1, 6))
    if rnd.random() < 0.3:
        t += ["?"] + seq(rnd.randint(0, 2)) + [":"] + seq(rnd.randint(0, 3))
        if rnd.random() < 0.3:
            t += ["?"] + seq(rnd.randint(0, 1)) + [":"] + seq(rnd.randint(0, 2))
    if rnd.random() < 0.3:
        return "".join(x + rnd.choice([" ", " ", "\n", "\t", "\r\n", "  ", "\n\n", " \n"]) for x in t).rstrip()
    return " ".join(t)


def run_shard(desc):
    kind, si, lo, hi, profile = desc
    rnd = common.rng(PROP, kind, si)
    items = []  # (text, expected or None)
    harness_skips = 0
    abstained = 0
    if kind in ("chain2", "chain3"):
        for text in chain_items(2 if kind == "chain2" else 3, lo, hi):
            items.append((text, None))
            if kind == "chain2" and " " in text:
                items.append((text.replace(" ", "\n"), None))  # every 2-chain also with each token on its own line
    elif kind == "tree":
        tg = gen.TreeGen(rnd)
        for _ in range(hi - lo):
            t = tg.program(d=rnd.randint(1, 4))
            rr = ref.Renderer(rnd=rnd, extra_parens=rnd.choice([0, 0, 0.15]), trailing_comma=0.1)
            text = ref.join_tokens(rr.tokens(t), rnd=rnd, compact=rnd.choice([0, 0.5, 1]), ws=gen.ws_maker(rnd) if rnd.random() < 0.3 else None)
            items.append((text, t))
    elif kind == "long":
        for _ in range(hi - lo):
            x = rnd.random()
            if x < 0.15:
                n = rnd.choice([64, 127, 128, 129, 130, 200, 300])
                op = rnd.choice(gen.SETTER_OPS)
                items.append((" ".join("v%d %s" % (i, op if rnd.random() < 0.8 else rnd.choice(gen.SETTER_OPS)) for i in range(n)) + " a + b * c", None))
            elif x < 0.25:
                n = rnd.choice([64, 128, 129, 200])
                items.append(("c ? 1 : " * n + "a + b * c ? x : y", None) if rnd.random() < 0.5 else ("c ? " * n + "a + b * c" + " : z" * n, None))
            elif x < 0.35:
                n = rnd.choice([128, 129, 200, 300])
                op = rnd.choice(gen.CALC_OPS)
                items.append((" ".join("v%d %s" % (i, op) for i in range(n)) + " a = b", None) if False else (" ".join(["v"] + [op + " w%d" % i for i in range(n)]) + " * c + d", None))
            elif rnd.random() < 0.6:
                n = rnd.choice([40, 64, 65, 100, 128, 129, 130, 200, 257, 300])
                items.append((" ".join(gen.long_chain_tokens(rnd, n)), None))
            else:
                t = gen.deep_nest(rnd, rnd.choice([40, 64, 65, 127, 128, 129, 150]))
                items.append((ref.Renderer(rnd=rnd).render(t), t))
    else:
        for _ in range(hi - lo):
            items.append((flat_walk(rnd), None))
    pre = []
    if kind == "withregs":
        # the same built-in-only programs in a process where unrelated operators have been registered on the built-in precedence
        # levels (and next to them) with either associativity: what is registered besides must not regroup the built-ins
        LEVELS = [20, 40, 50, 60, 70, 80, 90, 100, 110, 120, 200]
        for j, nm in enumerate(rnd.sample(["zzopa", "yyopb", "xxopc", "wwopd", "vvope", "uuopf"], rnd.randint(1, 5))):
            lvl = rnd.choice(LEVELS)
            pre.append({"op": "reg_infix", "name": nm, "prec": max(1, lvl + rnd.choice([0, 0, 0, -1, 1])), "type": rnd.choice(["CALC", "CALC", "SETTER"]), "assoc": rnd.choice(["LEFT", "RIGHT"]), "beh": {"id": 50 + j}})
        if rnd.random() < 0.5:
            pre.append({"op": "reg_prefix", "name": "ttpre", "beh": {"id": 60}})
            pre.append({"op": "reg_postfix", "name": "sspost", "beh": {"id": 61}})
        for _ in range(hi - lo):
            x = rnd.random()
            if x < 0.5:
                toks = ["a"]
                for i in range(rnd.choice([2, 3, 3, 4])):
                    op = rnd.choice(INFIX)
                    if rnd.random() < 0.25 and op not in ref.BUILTIN_PREFIX:
                        toks.append("not")
                    toks += [op, "bcde"[i]]
                items.append((rnd.choice(LAYOUTS).join(toks), None))
            elif x < 0.8:
                items.append((flat_walk(rnd), None))
            else:
                t = gen.TreeGen(rnd).program(d=rnd.randint(1, 3))
                items.append((ref.join_tokens(ref.Renderer(rnd=rnd).tokens(t), rnd=rnd, compact=rnd.choice([0, 0.5])), t))
    todo = []
    for text, exp in items:
        try:
            toks = ref.rtok(text)
            got = ref.rparse(toks)
        except ref.Abstain:
            abstained += 1
            continue
        except (ref.LexError, ref.ParseError) as e:
            harness_skips += 1
            continue
        if exp is not None and got != exp:
            # the generator's renderer and the reference parser disagree: an oracle bug, not a verdict
            harness_skips += 1
            continue
        todo.append((text, got))
    steps = [{"op": "parse", "text": t, "want": "a"} for t, _ in todo]
    wd = common.workdir(PROP)
    recs, events, _ = common.run_batch(steps, wd, "%s-%d" % (kind, si), profile, pre=pre)
    part = {"evaluations": 0, "classes": set(), "violations": [], "samples": [], "abstained": abstained, "inconclusive": [], "counts": {"harness_skips": harness_skips, "wl_" + kind: 0}}
    for (text, exp), r in zip(todo, recs):
        if r is None:
            continue
        part["evaluations"] += 1
        part["counts"]["wl_" + kind] += 1
        if r.get("p") == "ok" and r.get("ast") == exp:
            classes_of(exp, part["classes"])
            if len(part["samples"]) < 2:
                part["samples"].append({"program": text, "ast": exp})
            continue
        if r.get("p") == "ok":
            what = "`%s` parsed as %s, documented grouping is %s" % (text, json.dumps(r.get("ast"), ensure_ascii=False), json.dumps(exp, ensure_ascii=False))
            sig = ["misparse", shape(exp), shape(r.get("ast"))]
        else:
            what = "`%s` is well-formed but parse gave %s" % (text, r.get("perr") or r.get("ppanic"))
            sig = ["rejected", shape(exp), str(r.get("perr") or "panic")[:40]]
        if len(part["violations"]) < 40:
            if pre:
                what = "after registering %s: %s" % (", ".join("%s %s (%s %s)" % (r_["op"][4:], r_["name"], r_.get("prec", ""), r_.get("assoc", "")) for r_ in pre), what)
                sig = ["with-registrations"] + sig
            part["violations"].append({"sig": sig, "what": what, "replay": {"steps": pre + [{"op": "parse", "text": text, "want": "a"}], "expected_ast": exp, "profile": profile}})
    for kind_, detail, k in events:
        if kind_ in ("signal", "hang", "deadlock"):
            text = todo[k][0] if k < len(todo) else "?"
            part["violations"].append({"sig": ["crash", kind_], "what": "parsing `%s`: %s" % (text[:200], detail), "replay": {"steps": [{"op": "parse", "text": text}], "profile": profile}})
        else:
            part["inconclusive"].append("%s: %s" % (kind_, detail))
    part["classes"] = sorted(part["classes"])
    return part


def run(rep, tier):
    rep.rule = RULE
    rep.assumptions = ["reference parser R-PARSE encodes the README operator table and the property statement", "abstains: `not` before -/+, juxtaposed statements, repeated postfix operators"]
    common.build("verifdbg")
    common.build("release")
    shards = []
    n2 = count_chains(2)
    n3 = count_chains(3)
    shards.append(("chain2", 0, 0, n2, "verifdbg"))
    step = (n3 + 31) // 32
    n3_hi = n3 if tier == "thorough" else n3
    for i, lo in enumerate(range(0, n3_hi, step)):
        shards.append(("chain3", i, lo, min(lo + step, n3_hi), "release" if i % 2 else "verifdbg"))
    ntree = 60000 if tier == "quick" else 1500000
    nflat = 30000 if tier == "quick" else 600000
    per = 2500 if tier == "quick" else 25000
    for i in range(ntree // per):
        shards.append(("tree", i, 0, per, "release" if i % 2 else "verifdbg"))
    for i in range(nflat // per):
        shards.append(("flat", i, 0, per, "release" if i % 2 else "verifdbg"))
    for i in range(16 if tier == "quick" else 160):
        shards.append(("withregs", 100 + i, 0, 1500 if tier == "quick" else 8000, "release" if i % 2 else "verifdbg"))
    nlong = 640 if tier == "quick" else 16000
    for i in range(16):
        shards.append(("long", i, 0, nlong // 16, "release" if i % 2 else "verifdbg"))
    for part in common.pmap(run_shard, shards):
        rep.merge(part)
    rep.extra["exhaustive"] = True
    rep.extra["exhaustive_space"] = "all 2- and 3-operator chains over the 32 built-in infix operators with every legal `not` subset (%d + %d programs)" % (n2, n3)
    rep.floor = 1000
    if rep.extra.get("harness_skips", 0) > rep.evaluations * 0.02:
        raise common.HarnessError("renderer and reference parser disagree on %d generated programs" % rep.extra["harness_skips"])


def replay(path):
    d = json.load(open(path))
    r = d["replay"]
    wd = common.workdir(PROP, "replay")
    run = common.run_vexec(r["steps"], wd, "replay", r.get("profile", "verifdbg"))
    rec = run.steps()[-1] if run.steps() else {}
    print(json.dumps(rec, ensure_ascii=False))
    if rec.get("ast") == r.get("expected_ast"):
        print("replay: AST now equals the documented grouping")
        return 0
    print("VIOLATION property=%s replay=%s" % (PROP, path))
    return 1
