"""C15 — a failing or panicking handler is contained.
Fault enumeration: for every program of the pool and every handler invocation k, an Err and a panic are
injected at k; the faulted evaluation, the context afterwards and a follow-up battery (same context,
fresh context, other thread, every handler kind, re-registration) are compared with R-EVAL."""
import json
import os
from .. import common, gen, ref, evalcheck

PROP = "C15"
LEVEL = "fault_enumeration"
RULE = ("pool of random programs in which every handler kind (context function by call and by bare name incl. as assignment target, global function, "
        "prefix, infix CALC, infix SETTER, postfix operator) occurs at every depth with assignments around them; for each program, each handler "
        "invocation k (exhaustive) and each fault kind in {Err, panic}: the faulted run (result, call-log prefix of exactly k entries, bindings made "
        "before k), then snapshot of the same context, a canary evaluation on the same context, on a fresh context, and periodically on another "
        "thread plus re-registration of every operator kind. distinct class = (fault kind, kind of the handler that was hit, invocation index k)")
CANARY = "t(901) lop gt(902) rop (pre r1) pst ; u sop sh(903) ; [u, a, min(3, 4)]"


def canary_tree():
    return ref.rparse(ref.rtok(CANARY, gen.order_table()), gen.order_table())


def run_shard(desc):
    kind, si, n, profile = desc
    rnd = common.rng(PROP, kind, si)
    g = gen.OrderGen(rnd, fn_targets=True)
    model = gen.order_model()
    base_ctx = {k: ref.value_from_json(v) for k, v in gen.ORDER_VARS.items()}
    for k, b in gen.ORDER_FNS.items():
        base_ctx[k] = ("fn", ref.Beh(b["id"], b["log"], b["ret"], ref.value_from_json(b["v"]) if "v" in b else None))
    rend = ref.Renderer(table=model["table"], rnd=rnd)
    ctree = canary_tree()
    steps = []
    cases = []  # (first step index, tree, text, fault, threaded)
    cid = 0
    # global functions called with exactly one list argument (C15u: a "spread the list and try again" fallback invoked the failed
    # handler a second time), alone, inside a list and as an assigned value
    fixed = ["gt([1, 2])", "[sh([t(4)]), t(5)]", "u = gt([a]) ; t(6)"]
    for j in range(n + len(fixed)):
        t = g.program(d=rnd.randint(1, 3)) if j < n else ref.rparse(ref.rtok(fixed[j - n], model["table"]), model["table"])
        text = rend.render(t)
        _, ev0 = ref.evaluate(t, base_ctx, **model)
        # k runs one past the last invocation the program makes: a fault armed there must never fire
        for k in range(1, min(ev0.count, 12) + 2):
            for fk in ("err", "panic"):
                cid += 1
                threaded = (cid % 7 == 0)
                seq = [
                    {"op": "ctx", "id": cid, "vars": gen.ORDER_VARS, "fns": gen.ORDER_FNS},
                    {"op": "exec", "ctx": cid, "text": text, "fault": {"k": k, "kind": fk, "variant": evalcheck.ERR_VARIANTS[(k + cid) % len(evalcheck.ERR_VARIANTS)]}},
                    {"op": "snapshot", "ctx": cid},
                    {"op": "exec", "ctx": cid, "text": CANARY},
                ]
                first = len(steps)
                if threaded:
                    steps.append({"op": "threads", "plans": [seq]})
                else:
                    steps.extend(seq)
                steps.append({"op": "ctx", "id": -cid, "vars": gen.ORDER_VARS, "fns": gen.ORDER_FNS})
                steps.append({"op": "exec", "ctx": -cid, "text": CANARY})
                if cid % 11 == 0:
                    steps.extend(gen.ORDER_PRE)  # re-register every kind (same behaviours)
                    steps.append({"op": "parse", "text": text})
                cases.append((first, t, text, (k, fk), threaded))
    # long programs (> 64 KiB of text) through the one-shot `execute` entry point, fault in the middle
    long_cases = []
    if si % 4 == 0:
        for fk in ("err", "panic"):
            for pad in ((3000,) if os.environ.get("VERIF_TOOL") or profile == "miri" else (70000, 140000)):  # Miri costs ~10 ms per byte tokenized
                text = "t(1) + " + " " * pad + "gt(2) lop t(3) + 0"
                cid += 1
                first = len(steps)
                steps.append({"op": "ctx", "id": cid, "vars": gen.ORDER_VARS, "fns": gen.ORDER_FNS})
                steps.append({"op": "exec", "ctx": cid, "text": text, "via": "execute", "fault": {"k": 2, "kind": fk}})
                steps.append({"op": "snapshot", "ctx": cid})
                long_cases.append((first, fk, pad))
    wd = common.workdir(PROP)
    recs, events, _ = common.run_batch(steps, wd, "fault-%d" % si, profile, pre=gen.ORDER_PRE, timeout=1200)
    part = {"evaluations": 0, "classes": set(), "violations": [], "samples": [], "abstained": 0, "inconclusive": [], "counts": {"fault_runs": 0, "followup_steps": 0, "on_worker_thread": 0}}

    def bad(sig, what, case):
        if len(part["violations"]) < 60:
            part["violations"].append({"sig": sig, "what": what, "replay": {"program": case[2], "fault": list(case[3]), "threaded": case[4], "profile": profile}})

    for first, fk, pad in long_cases:
        r = recs[first + 1]
        if r is None:
            continue
        part["evaluations"] += 1
        part["counts"]["long_program_faults"] = part["counts"].get("long_program_faults", 0) + 1
        res = r.get("res") or {}
        ids = [e["h"] for e in r.get("log", []) if "h" in e]
        ok = ids == [1, 1000] and (("err" in res) if fk == "err" else ("vexec-injected-panic" in str(res.get("panic", ""))))
        if ok and not (recs[first + 2] or {}).get("poisoned"):
            part["classes"].add("long-program:%s:%d" % (fk, pad))
        else:
            part["violations"].append({"sig": ["long-program-fault", fk], "what": "a %d-byte program run through execute() with %s injected at the 2nd handler invocation: result %s, handler log ids %s (expected %s reaching the caller and exactly [1, 1000])" % (pad + 30, "an Err" if fk == "err" else "a panic", json.dumps(res)[:200], ids, "the error" if fk == "err" else "the panic"), "replay": None})
    for case in cases:
        first, t, text, fault, threaded = case
        if threaded:
            r = recs[first]
            if r is None or not isinstance(r.get("threads"), list) or not isinstance(r["threads"][0], list):
                if r is not None:
                    bad(["worker-thread-lost"], "worker thread running `%s` with %s at %d did not return its records: %s" % (text, fault[1], fault[0], json.dumps(r)[:200]), case)
                continue
            seq = r["threads"][0]
            if len(seq) < 4:
                bad(["worker-thread-lost"], "worker thread stopped early running `%s`" % text, case)
                continue
            rec_exec, rec_snap, rec_can = seq[1], seq[2], seq[3]
            fresh = recs[first + 2]
            part["counts"]["on_worker_thread"] += 1
        else:
            rec_exec, rec_snap, rec_can = recs[first + 1], recs[first + 2], recs[first + 3]
            fresh = recs[first + 5]
        if rec_exec is None:
            continue
        part["evaluations"] += 1
        part["counts"]["fault_runs"] += 1
        exp, ev = ref.evaluate(t, base_ctx, fault=fault, **model)
        st, detail = evalcheck.judge(exp, ev, rec_exec, check_ctx=True, check_log=True)
        where = "`%s` with %s injected at handler invocation %d%s" % (text, "an Err" if fault[1] == "err" else "a panic", fault[0], " (on a worker thread)" if threaded else "")
        if st.startswith("viol"):
            bad([st, fault[1]], "%s: %s" % (where, detail), case)
            continue
        if st == "abstain":
            part["abstained"] += 1
            continue
        hit = ev.log[-1] if ev.log else None
        # follow-ups: the same context must read back the prefix bindings and still evaluate normally
        ok = True
        if rec_snap is not None:
            part["counts"]["followup_steps"] += 1
            if rec_snap.get("poisoned") or "snap_panic" in rec_snap:
                bad(["context-poisoned", fault[1], hit[1] if hit else "?"], "after %s the context is poisoned: later get_variable panics (%s)" % (where, rec_snap.get("snap_panic", {}).get("panic", "")), case)
                ok = False
            elif evalcheck.snap_from_record(rec_snap) != evalcheck.model_ctx_snapshot(ev):
                bad(["context-differs", fault[1]], "after %s the context reads %s, expected %s" % (where, json.dumps(rec_snap.get("snap")), {k: evalcheck.fmt_any(v) for k, v in evalcheck.model_ctx_snapshot(ev).items()}), case)
                ok = False
        if ok and rec_can is not None:
            part["counts"]["followup_steps"] += 1
            exp2, ev2 = ref.evaluate(ctree, ev.ctx, **model)
            st2, d2 = evalcheck.judge(exp2, ev2, rec_can, check_ctx=True, check_log=True)
            if st2.startswith("viol"):
                bad(["followup-same-context", st2, fault[1]], "after %s, evaluating `%s` on the same context: %s" % (where, CANARY, d2), case)
                ok = False
        if ok and fresh is not None:
            part["counts"]["followup_steps"] += 1
            exp3, ev3 = ref.evaluate(ctree, base_ctx, **model)
            st3, d3 = evalcheck.judge(exp3, ev3, fresh, check_ctx=True, check_log=True)
            if st3.startswith("viol"):
                bad(["followup-fresh-context", st3, fault[1]], "after %s, evaluating `%s` on a fresh context: %s" % (where, CANARY, d3), case)
                ok = False
        if ok:
            part["classes"].add("%s:%s:%s:k%d" % (fault[1], hit[1] if hit else "?", hit[2] if hit else "?", fault[0]))
            if len(part["samples"]) < 2:
                part["samples"].append({"program": text, "fault": fault, "log_prefix": evalcheck.fmt_log(ev.log), "context_after": {k: evalcheck.fmt_any(v) for k, v in evalcheck.model_ctx_snapshot(ev).items()}})
    # any later step of the process that panicked (e.g. on a poisoned registry) is a violation too
    for i, r in enumerate(recs):
        if r is not None and ("reg_panic" in r or r.get("p") == "panic"):
            part["violations"].append({"sig": ["later-step-panicked", r.get("op")], "what": "step %s after a contained fault panicked: %s" % (r.get("op"), json.dumps(r)[:300]), "replay": None})
            break
    for kind_, detail, k in events:
        if kind_ in ("signal", "hang", "deadlock"):
            part["violations"].append({"sig": ["crash", kind_], "what": "during the fault enumeration: " + detail, "replay": None})
        else:
            part["inconclusive"].append("%s: %s" % (kind_, detail))
    part["classes"] = sorted(part["classes"])
    return part


def run(rep, tier):
    rep.rule = RULE
    rep.assumptions = ["the fault is injected by the harness-supplied handler itself (k-th invocation of any handler during the evaluation)", "an injected panic must reach the caller's catch_unwind with its payload"]
    common.build("verifdbg")
    common.build("release")
    n = 1600 if tier == "quick" else 40000
    per = 100 if tier == "quick" else 1000
    shards = [("pool", i, per, "release" if i % 2 else "verifdbg") for i in range(n // per)]
    # leaks that only matter after hundreds or thousands of contained faults on one thread
    shards += [("pool", 900 + i, 700 if tier == "quick" else 4000, "release" if i % 2 else "verifdbg") for i in range(2)]
    for part in common.pmap(run_shard, shards):
        rep.merge(part)
    rep.extra["exhaustive"] = True
    rep.extra["exhaustive_space"] = "for every program of the pool: every handler invocation index k x {Err, panic}"
    rep.floor = 2000


def san_shards(tier):
    """unwinding through engine frames and leaked guards under Miri"""
    return [("miri", [("pool", 500 + i, 3, "miri") for i in range(16)])]


def replay(path):
    d = json.load(open(path))
    r = d["replay"]
    model = gen.order_model()
    t = ref.rparse(ref.rtok(r["program"], model["table"]), model["table"])
    res, _ = evalcheck.run_programs(PROP, "replay", [{"tree": t, "text": r["program"], "fault": tuple(r["fault"])}], r.get("profile", "verifdbg"),
                                    ctx_vars=gen.ORDER_VARS, ctx_fns=gen.ORDER_FNS, pre=gen.ORDER_PRE, model=model, check_ctx=True, check_log=True)
    print(res[0][0], res[0][1])
    print(json.dumps(res[0][2])[:600])
    if res[0][0].startswith("viol") or (res[0][2] or {}).get("poisoned"):
        print("VIOLATION property=%s replay=%s" % (PROP, path))
        return 1
    return 0
