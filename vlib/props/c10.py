"""C10 — tokens tile the input and carry the exact source text; classification follows the documented rules.
Monitors: absolute tiling invariants checked online in the executor on every tokenized input; token kinds and
extents compared with the reference tokenizer R-TOK (abstaining where the rules leave a choice open)."""
import json
from .. import common, gen, ref
from . import c01

PROP = "C10"
RULE = ("bounded-exhaustive strings over the 42-character class alphabet (tiling invariants online on every input, full token lists compared with R-TOK "
        "for every string of length <= 3 and a 1-in-16 sample beyond), random soup/corruptions up to ~400 bytes, and configurations (fresh processes) "
        "that tokenize probe inputs before and after registering 1-5 extra symbolic / word operators in every role. distinct class = (token kind, "
        "kind of the following token, glued or spaced) pairs observed in agreement with R-TOK, plus one class per configuration operator")
EXTRA_OPS = ["=~", "!~", "<$>", "<~", "+.", "-x", "&a&", "**", "=>", "<>", "<=>", "+++", "---", "!!", "**=", "hi", "xor", "π", "~~", "plusminus", "&&&", "|>", "?:", "::",
             "is_strictly_greater_than_or_equal_to", "a_word_operator_of_exactly_32_by", "a_word_operator_of_exactly_33_byt", "x" * 70, "is-not", "≠≠", "不等于"]


def compare(s, hook_rec, table):
    """-> (status, detail, classes)"""
    # absolute, whatever the reference tokenizer thinks of the input: an operator token carries the text of a registered operator
    ops = table.all_ops()
    for g in hook_rec.get("toks", []):
        if g[0] == "op" and g[1] not in ops:
            return "viol", "token %s is classified as an operator but `%s` is not a registered operator (registered: built-ins%s)" % (json.dumps(g, ensure_ascii=False), g[1], "".join(" + " + o for o in sorted(ops - ref.BUILTINS.all_ops()))), ()
    try:
        exp = ref.rtok(s, table)
    except ref.Abstain as e:
        return "abstain", str(e), ()
    except ref.LexError as e:
        if "toks" in hook_rec:
            return "abstain", "lexically invalid by the reference, tokens by the crate (C05/C09 territory)", ()
        return "pass", "", ("lexerror",)
    if "toks" not in hook_rec:
        return "viol", "tokenizer returned %s, documented tokens are %s" % (hook_rec.get("terr") or hook_rec.get("tpanic") or hook_rec.get("perr"), exp), ()
    got = hook_rec["toks"]
    if len(got) != len(exp):
        return "viol", "token list %s, documented %s" % (json.dumps(got, ensure_ascii=False), exp), ()
    cls = []
    for i, (g, e) in enumerate(zip(got, exp)):
        ok = g[0] == e[0] and g[2] == e[2] and g[3] == e[3]
        if ok and e[0] == "num":
            m, sc = ref.number_value(e[1])
            ok = int(g[4]) == m and g[5] == sc
        elif ok:
            ok = g[1] == e[1]
        if not ok:
            return "viol", "token %d is %s, documented %s (full list %s)" % (i, json.dumps(g, ensure_ascii=False), e, json.dumps(got, ensure_ascii=False)), ()
        nxt = exp[i + 1] if i + 1 < len(exp) else None
        cls.append("%s>%s:%s" % (e[0] if e[0] != "op" else "op " + e[1], (nxt[0] if nxt[0] != "op" else "op " + nxt[1]) if nxt else "$", "glued" if nxt and nxt[2] == e[3] else "spaced"))
    return "pass", "", cls


def probes(rnd, ops):
    """inputs built around the operators of a configuration"""
    out = []
    for o in ops:
        out += ["a %s b" % o, "a%sb" % o, "%s a" % o, "a %s" % o, "a%s" % o, "%sa" % o, "(%s)" % o, "1%s2" % o, "x %s%s y" % (o, o), "[a %s, b]" % o, "f(a)%s(b)" % o, "a %s= b" % o, "a =%s b" % o]
        for k in range(1, len(o)):
            out += ["a %s b" % o[:k], "a%sb" % o[:k], "a %s %s b" % (o[:k], o[k:])]
        out += ["a %sx b" % o, "a x%s b" % o, "a %s_ b" % o]
        out += ["a\t%s\r\nb" % o, "'%s'" % o, "a %s 'b %s c' %s d" % (o, o, o)]
    for _ in range(20):
        toks = [rnd.choice(ops + ["a", "1", "(", ")", "x.y", "+", "-", "<", "=", "!", "in", "not", " ", " ", ",", "'s'"]) for _ in range(rnd.randint(2, 8))]
        out.append(rnd.choice(["", " "]).join(toks))
    return out


def run_shard(desc):
    kind, si, nshards, arg, profile = desc
    rnd = common.rng(PROP, kind, si)
    wd = common.workdir(PROP)
    part = {"evaluations": 0, "classes": set(), "violations": [], "samples": [], "abstained": 0, "inconclusive": [], "counts": {}}
    C = part["counts"]

    def viol(sig, what, steps):
        if len(part["violations"]) < 60:
            part["violations"].append({"sig": sig, "what": what, "replay": {"steps": steps, "profile": profile}})

    def judge(s, rec, table, pre_steps=()):
        st, detail, cls = compare(s, rec, table)
        if st == "abstain":
            part["abstained"] += 1
        elif st == "pass":
            part["classes"].update(cls)
            if len(part["samples"]) < 2 and "toks" in rec and len(rec["toks"]) >= 3:
                part["samples"].append({"input": s, "tokens": rec["toks"]})
        else:
            viol(["classification", detail.split(",")[0][:40] if "token " in detail else "count"], "input %r: %s" % (s, detail), list(pre_steps) + [{"op": "tokenize", "text": s}])

    if kind == "enum":
        step = {"op": "enum", "alphabet": c01.ALPHABET, "minlen": 0, "maxlen": arg, "shard": si, "nshards": nshards, "join": "", "tok": True, "exec": False, "rt": False, "sample": 16 if arg <= 4 else 509, "full_upto": 3}
        recs, events, extra = common.run_batch([step], wd, "enum-%d-%d-%s" % (arg, si, profile), profile, timeout=3600, max_restarts=0)
        en = (recs[0] or {}).get("enum", {})
        part["evaluations"] += en.get("n", 0)
        for k in ("n", "tok_ok", "tok_err", "ntokens", "sampled"):
            C["enum_" + k] = en.get(k, 0)
        for r in extra:
            if "viol" in r and r["viol"] in ("tile", "slice", "panic:tokenize"):
                viol([r["viol"], r["detail"].split(" ")[0] if r["viol"] != "tile" else " ".join(w for w in r["detail"].split(" ") if not any(c.isdigit() for c in w))[:50]], "%s on input %r: %s" % (r["viol"], r["input"], r["detail"]), [{"op": "tokenize", "text": r["input"]}])
            elif "rec" in r:
                C["compared_with_rtok"] = C.get("compared_with_rtok", 0) + 1
                judge(r["rec"], r, ref.BUILTINS)
        for kind_, detail, k in events:
            if kind_ in ("signal", "hang", "deadlock"):
                viol([kind_, "enum"], detail, [])
            else:
                part["inconclusive"].append("%s: %s" % (kind_, detail))
    elif kind == "firstparse":
        # the classification rules hold from the very first call of a process: inputs whose FIRST token is a word operator, a bool
        # spelling, a function name, parsed as the first engine call (public entry points; the tokenizer hook initialises by itself)
        firsts = ["not false", "not (1 in [1])", "AND [true, false]", "OR [false]", "true && x", "True", "False ? 1 : 2", "f(1) + 2", "in_x + 1", "nota", "- 1", "! true", "+ 2", "'s' beginWith 's'",
                  "x not in [1]", "[not true]", "max(1, 2)", "beginWithx", "ORx + 1", "(not true)", "not\ttrue", "AND\n[true]"]
        for i_, text in enumerate(firsts):
            for via in ("parse", "exec", "execute"):
                if (i_ + si) % 2 and via != "parse":
                    continue
                try:
                    want = ref.rparse(ref.rtok(text))
                except (ref.Abstain, ref.LexError, ref.ParseError):
                    continue
                st_ = {"op": "parse", "text": text, "want": "a"} if via == "parse" else dict({"op": "exec", "text": text, "want": "a"}, **({"via": "execute"} if via == "execute" else {}))
                run = common.run_vexec([st_, {"op": "parse", "text": text, "want": "a"}], wd, "first-%d-%d-%s-%s" % (si, i_, via, profile), profile)
                recs_ = run.steps()
                if not run.ended or len(recs_) != 2:
                    part["inconclusive"].append("first-parse run failed")
                    continue
                part["evaluations"] += 1
                C["first_calls"] = C.get("first_calls", 0) + 1
                first, second = recs_
                if via == "execute":
                    ok = True  # the one-shot entry point returns no tree; its text is judged through the second, warmed-up parse below
                else:
                    ok = first.get("p") == "ok" and first.get("ast") == want
                if ok and second.get("ast") == want:
                    part["classes"].add("first-call:%s:%s" % (via, text.split()[0][:8]))
                else:
                    viol(["first-call-classification", via], "as the first engine call of a fresh process (%s), `%s` parsed as %s; the documented reading (and the second call's) is %s" % (via, text, json.dumps(first.get("ast") or first.get("perr") or first.get("res")), json.dumps(want)), [st_])
    elif kind == "soup":
        tg = gen.TreeGen(rnd)
        inputs = []
        for _ in range(arg):
            if rnd.random() < 0.4:
                inputs.append(c01.soup(rnd))
            elif rnd.random() < 0.05:
                # long rules: many statements / one long chain, so that names, calls, strings and operators also occur far into the input
                if rnd.random() < 0.5:
                    inputs.append(rnd.choice([" ; ", ";", " ;\n"]).join(ref.join_tokens(ref.Renderer(rnd=rnd).tokens(tg.program(d=2)), rnd=rnd, compact=rnd.random()) for _ in range(rnd.choice([10, 20, 40, 80, 200]))))
                else:
                    k = rnd.choice([30, 63, 64, 65, 66, 100, 128, 129, 257, 600])
                    inputs.append(rnd.choice([" + ", "+", " in ", " , "]).join(rnd.choice(["v%d" % i, "g%d(%d)" % (i, i), "'s%d'" % i, "%d.5" % i, "é%d" % i, "h%d (x)" % i]) for i in range(k)) + " + f(7) in g (8)")
            elif rnd.random() < 0.03:
                inputs.append("\ufeff" + ref.join_tokens(ref.Renderer(rnd=rnd).tokens(tg.program(d=2))))
            else:
                t = tg.program(d=rnd.randint(1, 4))
                s = ref.join_tokens(ref.Renderer(rnd=rnd, extra_parens=0.1).tokens(t), rnd=rnd, compact=rnd.random(), ws=gen.ws_maker(rnd) if rnd.random() < 0.5 else None)
                inputs.append(s)
                inputs.extend(c01.corruptions(rnd, s)[:2])
        steps = [{"op": "tokenize", "text": s} for s in inputs]
        recs, events, _ = common.run_batch(steps, wd, "soup-%d" % si, profile)
        for s, r in zip(inputs, recs):
            if r is None:
                continue
            part["evaluations"] += 1
            C["soup"] = C.get("soup", 0) + 1
            if "tile" in r:
                viol(["tile", " ".join(w for w in r["tile"].split(" ") if not any(c.isdigit() for c in w))[:50]], "input %r: %s" % (s, r["tile"]), [{"op": "tokenize", "text": s}])
            elif "tpanic" in r:
                viol(["panic:tokenize"], "input %r: %s" % (s, r["tpanic"]), [{"op": "tokenize", "text": s}])
            else:
                judge(s, r, ref.BUILTINS)
        for kind_, detail, k in events:
            part["inconclusive"].append("%s: %s" % (kind_, detail))
    else:
        # configurations: one fresh process each
        for c in range(arg):
            ops = rnd.sample(EXTRA_OPS, rnd.randint(1, 5))
            table = ref.OpTable()
            inputs = probes(rnd, ops)
            steps = [{"op": "tokenize", "text": s, "tag": "before"} for s in inputs]
            regs = []
            hid = 0
            for o in ops:
                role = rnd.choice(["prefix", "infix", "postfix"])
                hid += 1
                if role == "prefix":
                    regs.append({"op": "reg_prefix", "name": o, "beh": {"id": hid}})
                elif role == "postfix":
                    regs.append({"op": "reg_postfix", "name": o, "beh": {"id": hid}})
                else:
                    regs.append({"op": "reg_infix", "name": o, "prec": rnd.choice([30, 65, 105, 130]), "type": "CALC", "assoc": rnd.choice(["LEFT", "RIGHT"]), "beh": {"id": hid}})
            tables = [table.copy()]
            order = []
            # register one at a time, re-probing after each registration (late registrations must be seen)
            for rg in regs:
                steps.append(rg)
                t2 = tables[-1].copy()
                if rg["op"] == "reg_prefix":
                    t2.prefix.add(rg["name"])
                elif rg["op"] == "reg_postfix":
                    t2.postfix.add(rg["name"])
                else:
                    t2.infix[rg["name"]] = (rg["prec"], rg["assoc"], "CALC")
                tables.append(t2)
                for s in inputs:
                    steps.append({"op": "tokenize", "text": s, "tag": "after%d" % (len(tables) - 1)})
            recs, events, _ = common.run_batch(steps, wd, "cfg-%d-%d" % (si, c), profile)
            ti = 0
            for st_, r in zip(steps, recs):
                if st_["op"] != "tokenize":
                    ti += 1
                    continue
                if r is None:
                    continue
                part["evaluations"] += 1
                C["config_tokenizations"] = C.get("config_tokenizations", 0) + 1
                pre_steps = [x for x in steps[: steps.index(st_)] if x["op"] != "tokenize" or x["text"] == st_["text"]]
                if "tile" in r:
                    viol(["tile", "config"], "with operators %s registered, input %r: %s" % (ops[:ti], st_["text"], r["tile"]), pre_steps + [st_])
                    continue
                before = len(part["violations"])
                judge(st_["text"], r, tables[ti], pre_steps)
                if len(part["violations"]) > before:
                    part["violations"][-1]["what"] = "after registering %s (probed before registration too): %s" % ([x["name"] for x in regs[:ti]], part["violations"][-1]["what"])
                    part["violations"][-1]["sig"] = ["config"] + part["violations"][-1]["sig"]
            for o in ops:
                part["classes"].add("config-op:" + o)
            C["configurations"] = C.get("configurations", 0) + 1
            for kind_, detail, k in events:
                part["inconclusive"].append("%s: %s" % (kind_, detail))
    part["classes"] = sorted(part["classes"])
    return part


def run(rep, tier):
    rep.rule = RULE
    rep.assumptions = ["R-TOK abstains on operator sets that are not prefix-closed, operator words glued to , ; or operator characters, scientific notation, over-long digit strings and `1.`",
                       "whitespace is exactly {space, tab, CR, LF}"]
    common.build("verifdbg")
    common.build("release")
    L = 4 if tier == "quick" else 5
    shards = [("enum", i, 16, L, "release") for i in range(16)]
    ns = 32000 if tier == "quick" else 600000
    per = 2000 if tier == "quick" else 20000
    shards += [("soup", i, 0, per, "release" if i % 2 else "verifdbg") for i in range(ns // per)]
    shards += [("firstparse", i, 0, 0, "release" if i % 2 else "verifdbg") for i in range(2)]
    nc = 64 if tier == "quick" else 2000
    shards += [("config", i, 0, nc // 16, "release" if i % 2 else "verifdbg") for i in range(16)]
    for part in common.pmap(run_shard, shards):
        rep.merge(part)
    rep.extra["exhaustive"] = True
    rep.extra["exhaustive_space"] = "all strings of length <= %d over the 42-symbol class alphabet (tiling invariants); full R-TOK comparison for length <= 3" % L
    rep.floor = 50000


def san_shards(tier):
    return [("miri", [("enum", i, 16, 2, "miri") for i in range(16)] + [("config", i, 0, 1, "miri") for i in range(8)])]


def replay(path):
    d = json.load(open(path))
    r = d["replay"]
    run = common.run_vexec(r["steps"], common.workdir(PROP, "replay"), "replay", r.get("profile", "verifdbg"))
    table = ref.OpTable()
    bad = False
    for st_, rec in zip(r["steps"], run.steps()):
        if st_["op"] == "reg_prefix":
            table.prefix.add(st_["name"])
        elif st_["op"] == "reg_postfix":
            table.postfix.add(st_["name"])
        elif st_["op"] == "reg_infix":
            table.infix[st_["name"]] = (st_["prec"], st_["assoc"], "CALC")
        elif st_["op"] == "tokenize":
            st, detail, _ = compare(st_["text"], rec, table)
            print(st_["text"], "->", json.dumps(rec.get("toks"), ensure_ascii=False), st, detail)
            bad |= st == "viol" or "tile" in rec or "tpanic" in rec
    if bad:
        print("VIOLATION property=%s replay=%s" % (PROP, path))
        return 1
    return 0
