"""C05 — malformed input is rejected, never silently repaired.
Oracle: the lenient recogniser L_max (R-GRAM) over reference tokens (R-TOK): only *acceptance* of a string
outside L_max (or of a lexically invalid one) is flagged."""
import json
from .. import common, gen, ref
from . import c01

PROP = "C05"
RULE = ("bounded-exhaustive token sequences over a 25-token alphabet (literals incl. string literals whose payload is a separator, name, call, all "
        "delimiters, separators, prefix/infix/postfix operators, `not`, `?`, `:`) checked in the executor, every accepted one judged against L_max; "
        "single-token faults (replace / delete / insert / swap with every alphabet symbol) at every position of generated valid programs; "
        "character-level corruptions of valid programs. distinct class = abstracted token sequence of an accepted input (literals -> E), "
        "and (fault kind, token kind) of a rejected fault")
ALPHABET = ["1", "'a'", "true", "x", "f", "(", ")", "[", "]", "{", "}", ",", ";", "+", "*", "!", "not", "++", "?", ":", "=", "in", "','", "':'", "'u"]  # 'u: an unterminated string
FAULT_SYMS = ALPHABET + ["']'", "')'", "'}'", "-", "--", "AND", "&&", "2.5", "\"s\"", "y", "g", "'abc", "\"abc", "1.2.3", "1..2", "0.1.2", "'"]
# characters whose code point ends in the byte of a blank or a delimiter: they are ordinary name characters
ALIAS = ["\u0120", "\u2120", "\u010a", "\u010d", "\u0109", "\u0128", "\u0129", "\u015b", "\u015d", "\u017b", "\u017d", "\u012c", "\u013b", "\u00a0", "\u3000", "\u2028"]


def abstract(toks):
    out = []
    for t in toks:
        if t[0] in ("num", "bool", "ref"):
            out.append("E")
        elif t[0] == "str":
            out.append("S:" + t[1] if t[1] in (",", ":", "]", ")", "}", ";") else "E")
        elif t[0] == "func":
            out.append("f")
        else:
            out.append(t[1])
    return out


def judge_accepted(s, table=ref.BUILTINS):
    """-> ('in' | 'out' | 'abstain', tokens)"""
    try:
        toks = ref.rtok(s, table)
    except ref.Abstain:
        return "abstain", None
    except ref.LexError:
        return "out", None
    if any(t[0] in ("ref", "func") and t[1] in table.all_ops() for t in toks):
        return "abstain", toks
    return ("in" if ref.in_lmax(toks, table) else "out"), toks


def shrink(s):
    """greedy token-level shrinking of a wrongly accepted input while it stays accepted-and-outside (python-side
    only decides 'outside'; acceptance of the shrunk text is re-checked by the caller's replay)"""
    return s


def run_shard(desc):
    kind, si, nshards, arg, profile = desc
    rnd = common.rng(PROP, kind, si)
    wd = common.workdir(PROP)
    part = {"evaluations": 0, "classes": set(), "violations": [], "samples": [], "abstained": 0, "inconclusive": [], "counts": {}}
    C = part["counts"]

    def viol(s, toks, how):
        if len(part["violations"]) < 80:
            ab = abstract(toks) if toks else ["<lexically invalid>"]
            part["violations"].append({"sig": ["accepted-outside-grammar", ab[:10]], "what": "%s `%s` is accepted by parse_expression but is not a sentence of the documented grammar (tokens %s)" % (how, s, " ".join(ab)),
                                       "replay": {"steps": [{"op": "parse", "text": s, "want": "ae"}], "profile": profile}})

    if kind == "enum":
        step = {"op": "enum", "alphabet": ALPHABET, "minlen": 0, "maxlen": arg, "shard": si, "nshards": nshards, "join": " ", "glue_call": True, "tok": False, "exec": False, "rt": False, "log_accepted": True, "sample": 0}
        recs, events, extra = common.run_batch([step], wd, "enum-%d-%d" % (arg, si), profile, timeout=3600, max_restarts=0)
        en = (recs[0] or {}).get("enum", {})
        part["evaluations"] += en.get("n", 0)
        C["enum_inputs"] = en.get("n", 0)
        C["enum_accepted"] = en.get("accepted", 0)
        for r in extra:
            if "acc" in r:
                st, toks = judge_accepted(r["acc"])
                if st == "abstain":
                    part["abstained"] += 1
                elif st == "in":
                    part["classes"].add(" ".join(abstract(toks)))
                    if len(part["samples"]) < 1 and len(toks) >= 4:
                        part["samples"].append({"accepted_and_in_grammar": r["acc"]})
                else:
                    viol(r["acc"], toks, "token sequence")
            elif "viol" in r and r["viol"].startswith("panic"):
                part["violations"].append({"sig": ["panic"], "what": "%s on `%s`: %s" % (r["viol"], r["input"], r["detail"]), "replay": None})
        for kind_, detail, k in events:
            if kind_ in ("signal", "hang", "deadlock"):
                part["violations"].append({"sig": [kind_, "enum"], "what": detail, "replay": None})
            else:
                part["inconclusive"].append("%s: %s" % (kind_, detail))
    elif kind == "config":
        # operators registered in mid-process, AFTER their word was already parsed as a plain name on the same thread (and, as a
        # control, before any parse): every token sequence of length <= 3 over the new operators, operands and delimiters plus random
        # longer ones must then be judged with the new table
        import itertools
        words = rnd.sample(["within", "negated", "pct", "upto", "mod2", "é2", "~~", "<>", "§", "nota", "inn", "k9"], 3)
        kinds_ = [rnd.choice(["prefix", "infix", "postfix"]) for _ in words]
        if si % 3 == 0:
            kinds_[0], kinds_[1] = "prefix", "infix"
        table = ref.BUILTINS.copy()
        regs = []
        for w, k in zip(words, kinds_):
            if k == "prefix":
                table.prefix.add(w)
                regs.append({"op": "reg_prefix", "name": w, "beh": {"id": 1}})
            elif k == "postfix":
                table.postfix.add(w)
                regs.append({"op": "reg_postfix", "name": w, "beh": {"id": 2}})
            else:
                table.infix[w] = (65, "LEFT", "CALC")
                regs.append({"op": "reg_infix", "name": w, "prec": 65, "type": "CALC", "assoc": "LEFT", "beh": {"id": 3}})
        alpha = words + ["1", "x", "(", ")", "[", "]", ",", "+", "?", ":", "f("]
        seqs = [list(c) for n_ in (1, 2, 3) for c in itertools.product(alpha, repeat=n_)]
        for _ in range(arg):
            seqs.append([rnd.choice(alpha) for _ in range(rnd.randint(4, 7))])
        texts = [" ".join(q) for q in seqs]
        wordlike = [w for w in words if w[0] not in ref.OPCHARS]
        warm = [{"op": "parse", "text": t_} for w in wordlike for t_ in (w, "1 + " + w, "f(%s, 2)" % w, "[%s]" % w, w + " = 3")]
        for early in (False, True):
            steps = (regs + warm if early else warm + regs) + [{"op": "parse", "text": t_} for t_ in texts]
            off = len(regs) + len(warm)
            recs, events, _ = common.run_batch(steps, wd, "config-%d-%d-%s" % (si, early, profile), profile, timeout=1200)
            for t_, r in zip(texts, recs[off:]):
                if r is None:
                    continue
                part["evaluations"] += 1
                C["wl_config"] = C.get("wl_config", 0) + 1
                if r.get("p") == "ok":
                    st, toks = judge_accepted(t_, table)
                    if st == "abstain":
                        part["abstained"] += 1
                    elif st == "in":
                        part["classes"].add("config:" + " ".join(x if x not in words else kinds_[words.index(x)] for x in abstract(toks))[:60])
                    else:
                        viol(t_, toks, "with %s registered %s," % (", ".join("%s as %s" % wk for wk in zip(words, kinds_)), "before the first parse" if early else "after their words had been parsed as plain names"))
                        part["violations"][-1]["sig"] = ["accepted-outside-grammar", "config", [x if x not in words else kinds_[words.index(x)] for x in abstract(toks)][:8]]
                        part["violations"][-1]["replay"] = {"steps": steps[:off] + [{"op": "parse", "text": t_, "want": "ae"}], "profile": profile, "table": [words, kinds_]}
            for kind_, detail, k in events:
                if kind_ in ("signal", "hang", "deadlock"):
                    part["violations"].append({"sig": [kind_, kind], "what": detail, "replay": None})
                else:
                    part["inconclusive"].append("%s: %s" % (kind_, detail))
    elif kind == "long":
        # a malformed piece after (or in the middle of) MANY well-formed statements: the statement count is taken around the
        # sizes a parser may bound or chunk its loops at. The small instance of each shape (3 statements) is judged by R-GRAM;
        # the long instances differ from it only in the number of repetitions of well-formed statements.
        STMTS = ["v = 1", "a + 1", "f(2)", "[1, 2]", "x ? 1 : 2", "n ++", "not b", "{1: 2}"]
        TAILS = ["]", ")", "}", "v + )", "[1 2]", "{1: 2", "(1", ",", ";", "1 +", "* 3", "1.2.3", "f(1 2)", "x ? 1", ": 2", "in", "1..2", "a = "]
        counts = [3, 64, 255, 256, 257, 1000, 1023, 1024, 1025, 2048, 4096, 10000] + ([] if arg == 0 else [65535, 65536, 65537, 100000])
        steps, plan = [], []
        for ci, cnt in enumerate(counts):
            for ti, tail in enumerate(TAILS):
                if (ci * len(TAILS) + ti) % nshards != si % nshards:
                    continue
                for sep in ("; ", "\n", " ;\n"):
                    if cnt > 5000 and sep != "; " and ti % 3:
                        continue
                    for where in ("end", "middle"):
                        body = [STMTS[(i + ti) % len(STMTS)] for i in range(cnt)]
                        if where == "end":
                            text = sep.join(body) + " ; " + tail
                            small = sep.join(body[:3]) + " ; " + tail
                        else:
                            text = sep.join(body[:cnt // 2]) + " ; " + tail + " ; " + sep.join(body[cnt // 2:])
                            small = sep.join(body[:1]) + " ; " + tail + " ; " + sep.join(body[1:3])
                        steps.append({"op": "parse", "text": text})
                        plan.append((text, small, cnt, tail, where))
        recs, events, _ = common.run_batch(steps, wd, "long-%d-%s" % (si, profile), profile, timeout=1200)
        for (text, small, cnt, tail, where), r in zip(plan, recs):
            if r is None:
                continue
            stt, toks = judge_accepted(small)
            if stt != "out":
                part["abstained"] += 1
                continue
            part["evaluations"] += 1
            C["wl_long"] = C.get("wl_long", 0) + 1
            if r.get("p") == "ok":
                part["violations"].append({"sig": ["accepted-outside-grammar", "long", tail, where], "what": "%d well-formed statements with the malformed piece `%s` at the %s (`%s ...`, %d bytes) are accepted by parse_expression; the 3-statement instance `%s` is not a sentence of the documented grammar" % (cnt, tail, where, text[:60].replace("\n", "\\n"), len(text), small.replace("\n", "\\n")),
                                           "replay": {"steps": [{"op": "parse", "text": text}], "profile": profile}})
            else:
                part["classes"].add("long:%d:%s" % (cnt, where))
        for kind_, detail, k in events:
            part["inconclusive"].append("%s: %s" % (kind_, detail))
    elif kind == "special":
        # malformed literals and separators that must be rejected, each also as the very first engine call of a
        # fresh process (lazy initialisation must not change what is accepted)
        bad = ["1.2.3", "1..2", "1.2.", "12e", "1e+", "0.0000000000000000000000000001.2.3", "12345678901234567890123456789.1.1", "0.0000000000000000000000000001e5", "0.00000000000000000000000000001.",
               "'abc", "\"abc", "'a\" + 1", "1 + 'x", "[1, 'a]", "f('x)", "in [1, 2]", "in", "beginWith 'a'", "endWith", "++ a", "-- 1", "&& true", "|| x", "== 1", "<<= 2", "* 3", ": 2", "? 1",
               "not", "not in [1]", "AND", "OR", "- ", "!", "a not", "a not b", "1 in", "x ? 1", "x ? 1 :", "x ? : 2", "[1 2]", "[1;2]", "{1 2}", "{1:2 3:4}", "{1:}", "{:1}", "f(1 2)", "f(,1)", "(1", "1)", "[1", "1]",
               "{1:2", "1:2}", "()", "(,)", "[,]", "{,}", "f(,)", ",", ";", ";;", "1;;2", "1,2", "a b,", "a = ", "= 1", "1 +", "+ * 2"]
        good_first = ["not true", "AND [true]", "OR [false, true]", "- 1", "! true", "+ 2", "(1)", "[1]", "f()", "", " ", "'in'"]
        for i, s_ in enumerate(bad + good_first):
            for fresh in (False, True):
                steps = ([{"op": "parse", "text": "1"}] if not fresh else []) + [{"op": "parse", "text": s_}]
                run = common.run_vexec(steps, wd, "special-%d-%d-%s" % (i, fresh, profile), profile)
                st = run.steps()
                if not run.ended or not st:
                    part["inconclusive"].append("special run failed")
                    continue
                r = st[-1]
                part["evaluations"] += 1
                C["wl_special"] = C.get("wl_special", 0) + 1
                if not fresh and judge_accepted(s_)[0] == "out":
                    # execute() on a context that happens to bind the program text itself as a variable name
                    run2 = common.run_vexec([{"op": "ctx", "id": 0, "vars": {s_: ["n", "7", 0], s_.strip(): ["n", "7", 0]}}, {"op": "exec", "ctx": 0, "text": s_, "via": "execute", "nosnap": True}], wd, "special-x-%d-%s" % (i, profile), profile)
                    st2 = run2.steps()
                    if run2.ended and len(st2) == 2:
                        part["evaluations"] += 1
                        if "ok" in (st2[1].get("res") or {}):
                            part["violations"].append({"sig": ["execute-accepts-malformed", "context-dependent"], "what": "execute(`%s`, ctx) returns %s when ctx binds a variable named like the program text; the text is not a sentence of the grammar" % (s_, json.dumps(st2[1].get("res"))), "replay": None})
                stt, toks = judge_accepted(s_)
                if r.get("p") == "ok" and stt == "out":
                    viol(s_, toks, "as the FIRST engine call of a fresh process," if fresh else "input")
                    part["violations"][-1]["sig"] = ["accepted-outside-grammar", "first-call" if fresh else "special", s_[:20]]
                    part["violations"][-1]["replay"] = {"steps": steps, "profile": profile}
                elif r.get("p") == "err" and s_ in good_first and stt == "in" and s_.strip():
                    part["violations"].append({"sig": ["valid-first-input-rejected", s_], "what": "`%s` is valid but was rejected%s: %s" % (s_, " as the first engine call of a fresh process" if fresh else "", r.get("perr")), "replay": {"steps": steps, "profile": profile}})
                else:
                    part["classes"].add("special:%s:%s" % ("fresh" if fresh else "warm", r.get("p")))
    else:
        tg = gen.TreeGen(rnd, leafp=0.35)
        inputs = []  # (text, how)
        for _ in range(arg):
            t = tg.program(d=rnd.randint(1, 3))
            toks = [str(x) if not isinstance(x, ref.FnName) else x for x in ref.Renderer(rnd=rnd, trailing_comma=0.1).tokens(t)]
            if kind == "tokfault":
                if len(toks) > 40:
                    continue
                for i in range(len(toks) + 1):
                    cands = []
                    if i < len(toks):
                        cands.append(("delete", toks[:i] + toks[i + 1:]))
                        for sym in rnd.sample(FAULT_SYMS, 5):
                            cands.append(("replace", toks[:i] + [sym] + toks[i + 1:]))
                        if i + 1 < len(toks):
                            cands.append(("swap", toks[:i] + [toks[i + 1], toks[i]] + toks[i + 2:]))
                    for sym in rnd.sample(FAULT_SYMS, 3):
                        cands.append(("insert", toks[:i] + [sym] + toks[i:]))
                    for how, tl in cands:
                        inputs.append((ref.join_tokens(tl), how))
            else:
                s = ref.join_tokens(toks, rnd=rnd, compact=rnd.random())
                for c in c01.corruptions(rnd, s) + c01.corruptions(rnd, s):
                    inputs.append((c, "corruption"))
                # an alias character in place of a separator / delimiter / blank
                for _ in range(3):
                    idx = [i for i, ch in enumerate(s) if ch in " ,:;()[]{}"]
                    if idx:
                        i = rnd.choice(idx)
                        inputs.append((s[:i] + rnd.choice(ALIAS) + s[i + 1:], "alias-char"))
        steps = [{"op": "parse", "text": s} for s, _ in inputs]
        recs, events, _ = common.run_batch(steps, wd, "%s-%d" % (kind, si), profile, timeout=1200)
        for (s, how), r in zip(inputs, recs):
            if r is None:
                continue
            part["evaluations"] += 1
            C["wl_" + kind] = C.get("wl_" + kind, 0) + 1
            if r.get("p") == "ok":
                st, toks = judge_accepted(s)
                if st == "abstain":
                    part["abstained"] += 1
                elif st == "in":
                    C["faulted_but_still_valid"] = C.get("faulted_but_still_valid", 0) + 1
                    part["classes"].add("%s:still-valid" % how)
                else:
                    viol(s, toks, "after a %s fault," % how)
            elif r.get("p") == "err":
                part["classes"].add("%s:rejected:%s" % (how, (r.get("perr") or "").split("(")[0]))
                if len(part["samples"]) < 2:
                    part["samples"].append({"faulted_input": s, "fault": how, "rejected_with": r.get("perr")})
        for kind_, detail, k in events:
            if kind_ in ("signal", "hang", "deadlock"):
                part["violations"].append({"sig": [kind_, kind], "what": detail, "replay": None})
            else:
                part["inconclusive"].append("%s: %s" % (kind_, detail))
    part["classes"] = sorted(part["classes"])
    return part


def run(rep, tier):
    rep.rule = RULE
    rep.assumptions = ["L_max is a superset of every reasonable reading of the README grammar (optional/trailing `;`, trailing commas, repeated postfix operators); only acceptance outside L_max is flagged",
                       "inputs on which R-TOK abstains (scientific notation, operator words used as names, ...) are skipped"]
    common.build("verifdbg")
    common.build("release")
    L = 5 if tier == "quick" else 6
    shards = [("enum", i, 16, L, "release") for i in range(16)]
    shards += [("special", 0, 0, 0, "verifdbg"), ("special", 1, 0, 0, "release")]
    nt = 1600 if tier == "quick" else 40000
    nc = 16000 if tier == "quick" else 400000
    shards += [("tokfault", i, 0, nt // 16, "release" if i % 2 else "verifdbg") for i in range(16)]
    shards += [("long", i, 8, 0 if tier == "quick" else 1, "release" if i % 2 else "verifdbg") for i in range(8)]
    shards += [("config", i, 0, 300 if tier == "quick" else 6000, "release" if i % 2 else "verifdbg") for i in range(16)]
    shards += [("corrupt", i, 0, nc // 16, "release" if i % 2 else "verifdbg") for i in range(16)]
    for part in common.pmap(run_shard, shards):
        rep.merge(part)
    rep.extra["exhaustive"] = True
    rep.extra["exhaustive_space"] = "all token sequences of length <= %d over the %d-token alphabet" % (L, len(ALPHABET))
    rep.floor = 100000


def replay(path):
    d = json.load(open(path))
    r = d["replay"]
    run = common.run_vexec(r["steps"], common.workdir(PROP, "replay"), "replay", r.get("profile", "verifdbg"))
    rec = run.steps()[-1]
    print(json.dumps(rec, ensure_ascii=False))
    table = ref.BUILTINS
    if r.get("table"):
        table = ref.BUILTINS.copy()
        for w, k in zip(*r["table"]):
            if k == "infix":
                table.infix[w] = (65, "LEFT", "CALC")
            else:
                getattr(table, k).add(w)
    st, _ = judge_accepted(r["steps"][-1]["text"], table)
    if rec.get("p") == "ok" and st == "out":
        print("VIOLATION property=%s replay=%s" % (PROP, path))
        return 1
    return 0
