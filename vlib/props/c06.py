"""C06 — assignments update the context exactly as written.
Oracle: R-EVAL predicts the program's value AND the caller's context after exec (Ok or Err), read through a
second handle on the context; plus the metamorphic pair `x op= e` vs `x = x op e`."""
import json
from .. import common, gen, ref, evalcheck

PROP = "C06"
RULE = ("random statement sequences (1-8 statements) over 6 variable names (two of them also names of global functions) and all 11 assignment "
        "operators: plain/compound/chained/nested assignments, reads, re-assignment with values of changing type, non-name targets, a failing "
        "statement at every position, the empty program; initial contexts empty / pre-bound with every value type. The value and the final context "
        "are compared with the model; `x op= e` is also compared with `x = x op e` on equal contexts. distinct class = (assignment operator, old "
        "value class, new value class, outcome)")
VARS = ["a", "b", "c", "d", "max", "sum", "m", "m.k", "a.b", "taxZone", "TRUE", "fALSE"]  # `m.k` is one plain name, whatever `m` holds
FN_TARGETS = ["rate", "quota"]  # bound to context functions: reading the target calls the function
SETTERS = gen.SETTER_OPS
FAILING = [["bin", "/", ["num", "1", 0], ["num", "0", 0]], ["bin", "+", ["ref", "nil"], ["num", "1", 0]], ["fn", "nosuch", []], ["un", "!", ["num", "1", 0]], ["fn", "min", []]]
INIT_VALUES = [["n", "0", 0], ["n", "5", 0], ["n", "-3", 0], ["n", "25", 1], ["n", "30", 1], ["b", True], ["s", "ab"], ["s", ""], ["l", [["n", "1", 0], ["s", "a"]]], ["l", []], ["m", [[["s", "k"], ["n", "1", 0]]]], ["m", [[["s", "k"], ["n", "8", 0]], [["s", "b"], ["n", "9", 0]], [["n", "1", 0], ["s", "one"]]]], ["z"], ["n", "79228162514264337593543950335", 0], ["n", "9223372036854775807", 0]]


class AsgGen:
    def __init__(self, rnd):
        self.rnd = rnd
        self.tg = gen.TypedGen(rnd, ill=0.05, edge=0.05, use_vars=False)

    def leaf(self):
        r = self.rnd
        x = r.random()
        if x < 0.3:
            return ["ref", r.choice(VARS)]
        if x < 0.33:
            return ["ref", "nil"]
        if x < 0.36:
            # text that looks like program structure inside a string literal
            return ["str", r.choice(["; ", "a;b;c", ";", ",", "x = 1", "a = 1; b", "(", "]", "? :", "not", " ", "", "1 + 2", "'", '"'])]
        if x < 0.9:
            return gen.num_lit(*r.choice(gen.NUM_SMALL + [(-2, 0), (-15, 1)]))
        return self.tg.leaf(r.choice("NBSL"))

    def expr(self, d):
        r = self.rnd
        if d <= 0 or r.random() < 0.3:
            return self.leaf()
        k = gen.wchoice(r, [("arith", 7), ("cmp", 0.7), ("bit", 0.7), ("list", 0.5), ("map", 0.6), ("tern", 1), ("call", 1.5), ("nested", 1.5), ("un", 0.7), ("post", 1)])
        if k == "arith":
            return ["bin", r.choice(["+", "-", "*", "+", "-", "%"]), self.expr(d - 1), self.expr(d - 1)]
        if k == "cmp":
            return ["bin", r.choice(["<", "==", "!=", ">=", "&&", "||"]), self.expr(d - 1), self.expr(d - 1)]
        if k == "bit":
            return ["bin", r.choice(["<<", ">>", "&", "|", "^"]), self.expr(d - 1), self.expr(d - 1)]
        if k == "list":
            return ["list", [self.expr(d - 1) for _ in range(r.randint(0, 3))]]
        if k == "map":
            # keys and values that read variables
            return ["map", [[r.choice([["ref", r.choice(VARS)], ["str", r.choice(["k", "b"])], self.leaf()]), self.expr(d - 1)] for _ in range(r.randint(1, 2))]]
        if k == "tern":
            return ["tern", ["bin", "==", self.expr(d - 1), self.leaf()], self.expr(d - 1), self.expr(d - 1)]
        if k == "call":
            return ["fn", r.choice(["last", "last", "min", "max", "sum"]), [self.expr(d - 1) for _ in range(r.randint(1, 3))]]
        if k == "nested":
            a = self.assign(d - 1)
            x = r.random()
            if x < 0.5:
                return ["fn", "last", [a, self.leaf()]]
            if x < 0.8:
                return ["list", [a, self.leaf()]]
            return a
        if k == "un":
            return ["un", r.choice(["-", "-", "+"]), self.expr(d - 1)]
        return ["post", self.expr(d - 1), r.choice(["++", "--"])]

    def assign(self, d):
        r = self.rnd
        x = r.random()
        op = "=" if x < 0.3 else (r.choice(["+=", "-=", "*=", "/=", "%="]) if x < 0.8 else r.choice(SETTERS))
        tk = gen.wchoice(r, [("name", 40), ("num", 0.4), ("call", 0.3), ("list", 0.3), ("expr", 0.3)])
        if tk == "name":
            target = ["ref", r.choice(VARS) if r.random() < 0.93 else r.choice(FN_TARGETS)]
        elif tk == "num":
            target = ["num", "1", 0]
        elif tk == "call":
            target = ["fn", "last", [["num", "2", 0]]]
        elif tk == "list":
            target = ["list", [["ref", "a"]]]
        else:
            target = ["bin", "+", ["ref", "a"], ["num", "1", 0]]
        rhs = self.expr(d)
        if target[0] == "ref" and target[1] in FN_TARGETS and r.random() < 0.6:
            # assigning exactly what the function-bound target currently yields must still rebind it as a variable
            cur = {"rate": (12, 0), "quota": (25, 1)}[target[1]]
            op, rhs = r.choice([("=", gen.num_lit(*cur)), ("*=", gen.num_lit(1, 0)), ("+=", gen.num_lit(0, 0)), ("-=", gen.num_lit(0, 1)), ("=", gen.num_lit(cur[0] * 10, cur[1] + 1))])
        if target[0] == "list" and r.random() < 0.7:
            # a list of names is not a name, whatever is assigned to it
            target = ["list", [["ref", v] for v in r.sample(VARS, r.randint(1, 3))]]
            rhs = ["list", [gen.num_lit(*r.choice(gen.NUM_SMALL)) for _ in range(r.choice([len(target[1])] * 3 + [0, 1, len(target[1]) - 1, len(target[1]) + 1]))]]
        if op in ("<<=", ">>=", "&=", "|=", "^=") and r.random() < 0.8:
            rhs = gen.num_lit(r.choice([0, 1, 2, 3, 5, 63, 64, -1]), 0)
        if target[0] == "ref" and r.random() < 0.15:
            # the right side re-binds the very target and still yields a usable value
            rhs = ["fn", "last", [["bin", "=", ["ref", target[1]], self.tg.leaf("N")], self.tg.leaf("N")]]
        return ["bin", op, target, rhs]

    def stmt(self):
        r = self.rnd
        k = gen.wchoice(r, [("assign", 8), ("read", 2), ("expr", 2), ("fail", 0.4)])
        if k == "assign":
            return self.assign(r.randint(0, 2))
        if k == "read":
            return ["ref", r.choice(VARS + ["nil"])]
        if k == "expr":
            return self.expr(r.randint(1, 3))
        return r.choice(FAILING)

    def program(self):
        r = self.rnd
        n = gen.wchoice(r, [(0, 0.3), (1, 2), (2, 3), (3, 3), (4, 2), (6, 1), (8, 0.5)])
        stmts = [self.stmt() for _ in range(n)]
        if n and r.random() < 0.25:
            # two adjacent stores to one name, the second reading the first through every kind of position
            v = r.choice(VARS)
            x = ["ref", v]
            lit = r.choice([gen.num_lit(*r.choice(gen.NUM_SMALL)), ["str", "k"], ["bool", True], ["list", [["num", "1", 0]]]])
            use = r.choice([["map", [[x, ["str", "one"]]]], ["map", [[["str", "k"], x]]], ["list", [x]], ["list", [["num", "0", 0], x, x]], ["tern", ["bin", "==", x, lit], ["num", "1", 0], ["num", "2", 0]],
                            ["fn", "last", [x]], ["fn", "last", [["num", "3", 0], ["map", [[x, x]]]]], ["un", "-", x], ["bin", "+", x, ["num", "1", 0]], ["bin", "in", x, ["list", [x]]], ["post", x, "++"], x,
                            ["map", [[["list", [x]], ["num", "1", 0]]]]])
            at = r.randrange(len(stmts) + 1)
            stmts[at:at] = [["bin", "=", x, lit], ["bin", r.choice(["=", "=", "=", "+=", "*="]), x, use]] + ([x] if r.random() < 0.5 else [])
            n = len(stmts)
        if n and r.random() < 0.6:
            # start from numeric bindings so that compound assignments have something to work on
            pre = [["bin", "=", ["ref", v], gen.num_lit(*r.choice(gen.NUM_SMALL))] for v in VARS if r.random() < 0.7]
            stmts = pre + stmts
            n = len(stmts)
        if n == 1:
            return stmts[0]
        return ["stmt", stmts]

    def init_ctx(self):
        r = self.rnd
        if r.random() < 0.25:
            return {}
        c = {v: (r.choice(INIT_VALUES[:5]) if r.random() < 0.75 else r.choice(INIT_VALUES)) for v in VARS if r.random() < 0.8}
        if "m" in c and r.random() < 0.8:
            c["m"] = INIT_VALUES[11]  # a map with the keys 'k' and 'b': the names m.k / a.b are still separate, unbound names
        if r.random() < 0.5:
            c.pop("m.k", None)
            c.pop("a.b", None)
        if "a" in c and r.random() < 0.3:
            c["a"] = INIT_VALUES[11]
        return c


def has_assign(t):
    return any(x[0] == "bin" and x[1] in ref.BUILTIN_INFIX and ref.BUILTIN_INFIX[x[1]][2] == "SETTER" for x in gen.subtrees(t))


def run_shard(desc):
    kind, si, n, profile = desc
    rnd = common.rng(PROP, kind, si)
    g = AsgGen(rnd)
    part = {"evaluations": 0, "classes": set(), "violations": [], "samples": [], "abstained": 0, "inconclusive": [], "counts": {"wl_" + kind: 0, "failed_midway": 0}}
    fns = {"last": {"id": 9, "log": False, "ret": "last"}, "rate": {"id": 10, "log": False, "ret": "const", "v": ["n", "12", 0]}, "quota": {"id": 11, "log": False, "ret": "const", "v": ["n", "25", 1]}}
    if kind == "seq":
        progs = []
        for _ in range(n):
            t = g.program()
            if t[0] == "stmt" and len(t[1]) == 0:
                text = rnd.choice(["", " ", "\n"])
            else:
                text = ref.Renderer(rnd=rnd, extra_parens=0.03).render(t)
            progs.append({"tree": t, "text": text, "vars": g.init_ctx()})
        res, events = evalcheck.run_programs(PROP, "seq-%d" % si, progs, profile, ctx_fns=fns, check_ctx=True)
        for p, (st, detail, rec, exp, ev) in zip(progs, res):
            if st in ("norecord", "skip-c02"):
                continue
            part["evaluations"] += 1
            part["counts"]["wl_seq"] += 1
            if st == "abstain":
                part["abstained"] += 1
                continue
            if st == "pass":
                if exp[0] == "err":
                    part["counts"]["failed_midway"] += 1
                for x in gen.subtrees(p["tree"]):
                    if x[0] == "bin" and x[1] in SETTERS:
                        part["classes"].add("%s:%s:%s" % (x[1], x[2][0], exp[0]))
                if len(part["samples"]) < 2 and has_assign(p["tree"]):
                    part["samples"].append({"program": p["text"], "initial": p["vars"], "result": evalcheck.fmt_outcome(exp), "final_context": {k: evalcheck.fmt_any(v) for k, v in evalcheck.model_ctx_snapshot(ev).items()}})
                continue
            if len(part["violations"]) < 60:
                ops = sorted({x[1] for x in gen.subtrees(p["tree"]) if x[0] == "bin" and x[1] in SETTERS})
                part["violations"].append({"sig": [st, ops[:3]], "what": "`%s` on context %s: %s" % (p["text"], json.dumps(p["vars"]), detail),
                                           "replay": {"program": p["text"], "tree": p["tree"], "vars": p["vars"], "profile": profile}})
    else:
        # metamorphic: x op= e  vs  x = x op e on equal contexts (the implementation against itself)
        steps = []
        meta = []
        for i in range(n):
            op = rnd.choice([o for o in SETTERS if o != "="])
            e = g.expr(rnd.randint(0, 2))
            if has_assign(e):
                e = g.tg.leaf("N")
            x = rnd.choice(VARS) if rnd.random() < 0.85 else rnd.choice(FN_TARGETS)
            t1 = ["stmt", [["bin", op, ["ref", x], e], ["ref", x]]]
            t2 = ["stmt", [["bin", "=", ["ref", x], ["bin", op[:-1], ["ref", x], e]], ["ref", x]]]
            vars_ = g.init_ctx()
            for j, t in enumerate((t1, t2)):
                steps.append({"op": "ctx", "id": 2 * i + j, "vars": vars_, "fns": fns})
                steps.append({"op": "exec", "ctx": 2 * i + j, "text": ref.Renderer().render(t)})
            meta.append((op, ref.Renderer().render(t1), ref.Renderer().render(t2), vars_))
        recs, events, _ = common.run_batch(steps, common.workdir(PROP), "meta-%d" % si, profile)
        for i, (op, s1, s2, vars_) in enumerate(meta):
            r1, r2 = recs[4 * i + 1], recs[4 * i + 3]
            if r1 is None or r2 is None:
                continue
            part["evaluations"] += 1
            part["counts"]["wl_meta"] += 1
            o1, o2 = r1.get("res"), r2.get("res")
            same = (o1 is not None and o2 is not None and (("ok" in o1 and "ok" in o2 and ref.value_from_json(o1["ok"]) == ref.value_from_json(o2["ok"])) or ("err" in o1 and "err" in o2))
                    and evalcheck.snap_from_record(r1) == evalcheck.snap_from_record(r2))
            if same:
                part["classes"].add("meta:%s:%s" % (op, "ok" if "ok" in o1 else "err"))
            elif len(part["violations"]) < 60:
                part["violations"].append({"sig": ["compound-vs-expansion", op], "what": "`%s` gives %s / %s but `%s` gives %s / %s (context %s)" % (s1, json.dumps(o1), json.dumps(r1.get("snap")), s2, json.dumps(o2), json.dumps(r2.get("snap")), json.dumps(vars_)),
                                           "replay": {"meta": [s1, s2], "vars": vars_, "profile": profile}})
    for kind_, detail, k in events:
        if kind_ in ("signal", "hang", "deadlock"):
            part["violations"].append({"sig": ["crash", kind_], "what": detail, "replay": None})
        else:
            part["inconclusive"].append("%s: %s" % (kind_, detail))
    part["classes"] = sorted(part["classes"])
    return part


def run(rep, tier):
    rep.rule = RULE
    rep.assumptions = ["an assignment target bound to a context function is read by calling it (as `x op e` would) and is then rebound as a variable", "which error variant is returned is not compared"]
    common.build("verifdbg")
    common.build("release")
    n = 100000 if tier == "quick" else 2000000
    nm = 20000 if tier == "quick" else 400000
    per = 5000 if tier == "quick" else 50000
    shards = [("seq", i, per, "release" if i % 2 else "verifdbg") for i in range(n // per)]
    shards += [("meta", i, per, "release" if i % 2 else "verifdbg") for i in range(nm // per)]
    for part in common.pmap(run_shard, shards):
        rep.merge(part)
    rep.floor = 10000


def replay(path):
    d = json.load(open(path))
    r = d["replay"]
    if "meta" in r:
        print("metamorphic pair:", r["meta"])
        steps = []
        for j, s in enumerate(r["meta"]):
            steps += [{"op": "ctx", "id": j, "vars": r["vars"], "fns": {"last": {"id": 9, "ret": "last"}, "rate": {"id": 10, "ret": "const", "v": ["n", "12", 0]}, "quota": {"id": 11, "ret": "const", "v": ["n", "25", 1]}}}, {"op": "exec", "ctx": j, "text": s}]
        run = common.run_vexec(steps, common.workdir(PROP, "replay"), "replay", r.get("profile", "verifdbg"))
        st = run.steps()
        print(json.dumps(st[1]), json.dumps(st[3]))
        ok = st[1].get("res") == st[3].get("res") and st[1].get("snap") == st[3].get("snap")
    else:
        res, _ = evalcheck.run_programs(PROP, "replay", [{"tree": r["tree"], "text": r["program"], "vars": r["vars"]}], r.get("profile", "verifdbg"), ctx_fns={"last": {"id": 9, "log": False, "ret": "last"}, "rate": {"id": 10, "log": False, "ret": "const", "v": ["n", "12", 0]}, "quota": {"id": 11, "log": False, "ret": "const", "v": ["n", "25", 1]}}, check_ctx=True)
        print(res[0][0], res[0][1])
        ok = not res[0][0].startswith("viol")
    if not ok:
        print("VIOLATION property=%s replay=%s" % (PROP, path))
        return 1
    return 0
