"""C07 — each subexpression runs once, left to right; conditionals are lazy; nothing runs after the first error.
Oracle: the call log recorded by logging handlers with unique ids (the log *is* the evaluation order) and the
context afterwards, compared with R-EVAL's predicted log / bindings; an error is injected at every position."""
import json
from .. import common, gen, ref, evalcheck

PROP = "C07"
RULE = ("random trees over every node kind (built-in and registered logging infix CALC-left / CALC-right / SETTER operators, prefix, postfix, "
        "conditional, context and global function calls, bare-name context functions, list, map key/value, `in`/`not in` with a matching "
        "non-last element, assignments, statement chains) whose leaves and inner nodes are logging calls with unique ids; each program is "
        "run once unfaulted and once per handler invocation k with an Err injected at k (exhaustive over k). distinct class = (node kind, "
        "operand slot, evaluated | skipped-by-laziness | skipped-by-error)")


def slot_classes(tree, ev_log_ids, out, faulted):
    """coverage classes: which child slots of which node kinds were evaluated / skipped"""
    def ids(a):
        return [int(x[2][0][1]) for x in gen.subtrees(a) if x[0] == "fn" and x[1] in ("t", "gt", "sh") and x[2] and x[2][0][0] == "num"]

    for x in gen.subtrees(tree):
        k = x[0]
        if k == "tern":
            for i, c in enumerate(x[1:]):
                ci = ids(c)
                if ci:
                    seen = any(j in ev_log_ids for j in ci)
                    out.add("tern:%d:%s" % (i, "evaluated" if seen else ("skipped-by-error" if faulted else "skipped-by-laziness")))
        elif k == "bin":
            for i, c in enumerate(x[2:]):
                ci = ids(c)
                if ci:
                    out.add("bin %s:%d:%s" % (x[1], i, "evaluated" if any(j in ev_log_ids for j in ci) else "skipped"))
        elif k in ("list", "fn", "map", "stmt"):
            kids = x[2] if k == "fn" else ([c for kv in x[1] for c in kv] if k == "map" else x[1])
            for i, c in enumerate(kids[:4]):
                ci = ids(c)
                if ci:
                    out.add("%s:%d:%s" % (k, i, "evaluated" if any(j in ev_log_ids for j in ci) else "skipped"))


def run_shard(desc):
    kind, si, n, profile = desc
    rnd = common.rng(PROP, kind, si)
    g = gen.OrderGen(rnd, fn_targets=True)
    model = gen.order_model()
    base_ctx = {k: ref.value_from_json(v) for k, v in gen.ORDER_VARS.items()}
    for k, b in gen.ORDER_FNS.items():
        base_ctx[k] = ("fn", ref.Beh(b["id"], b["log"], b["ret"], ref.value_from_json(b["v"]) if "v" in b else None))
    progs = []
    rend = ref.Renderer(table=model["table"], rnd=rnd)
    if kind == "long":
        for _ in range(n):
            g.i = 0
            m = rnd.choice([64, 65, 128, 129, 200])
            k = rnd.choice(["sum", "list", "args", "stmts", "map", "nest"])
            if k == "sum":
                t = g.call()
                for _i in range(m - 1):
                    t = ["bin", rnd.choice(["+", "lop", "-"]), t, g.call()]
            elif k == "list":
                t = ["list", [g.call() for _i in range(m)]]
            elif k == "args":
                t = g.call(*[g.call() for _i in range(m)])
            elif k == "stmts":
                t = ["stmt", [g.call() if _i % 3 else ["bin", "=", ["ref", "a"], g.call()] for _i in range(m)]]
            elif k == "map":
                t = ["map", [[g.call(), g.call()] for _i in range(m // 2)]]
            else:
                t = g.call()
                for _i in range(m):
                    t = g.call(t) if _i % 2 else ["list", [t, g.call()]]
            text = rend.render(t)
            _, ev = ref.evaluate(t, base_ctx, **model)
            progs.append({"tree": t, "text": text, "fault": None})
            for kk in sorted({1, 2, 63, 64, 65, 127, 128, 129, ev.count - 1, ev.count}):
                if 1 <= kk <= ev.count:
                    progs.append({"tree": t, "text": text, "fault": (kk, "err")})
        n = 0
    for _ in range(n):
        t = g.program(d=rnd.randint(1, 4))
        text = rend.render(t)
        _, ev = ref.evaluate(t, base_ctx, **model)
        progs.append({"tree": t, "text": text, "fault": None})
        for k in range(1, min(ev.count, 16) + 1):
            progs.append({"tree": t, "text": text, "fault": (k, "err")})
    res, events = evalcheck.run_programs(PROP, "ord-%d" % si, progs, profile, ctx_vars=gen.ORDER_VARS, ctx_fns=gen.ORDER_FNS, pre=gen.ORDER_PRE, model=model, check_ctx=True, check_log=True)
    part = {"evaluations": 0, "classes": set(), "violations": [], "samples": [], "abstained": 0, "inconclusive": [], "counts": {"programs": 0, "fault_runs": 0, "handler_invocations_logged": 0}}
    for p, (st, detail, rec, exp, ev) in zip(progs, res):
        if st in ("norecord", "skip-c02"):
            continue
        part["evaluations"] += 1
        part["counts"]["fault_runs" if p["fault"] else "programs"] += 1
        if st == "abstain":
            part["abstained"] += 1
            continue
        if st == "pass":
            part["counts"]["handler_invocations_logged"] += len(ev.log)
            seen = {int(e[3][0][1]) for e in ev.log if e[2] in ("t", "gt", "sh") and e[3] and e[3][0][0] == "n"}
            slot_classes(p["tree"], seen, part["classes"], p["fault"] is not None)
            if p["fault"]:
                part["classes"].add("fault-position:%d" % p["fault"][0])
            if len(part["samples"]) < 2 and len(ev.log) >= 3:
                part["samples"].append({"program": p["text"], "fault": p["fault"], "log": evalcheck.fmt_log(ev.log), "result": evalcheck.fmt_outcome(exp)})
            continue
        if len(part["violations"]) < 60:
            kinds = sorted({x[0] + (" " + x[1] if x[0] in ("bin", "un") else "") for x in gen.subtrees(p["tree"])})
            part["violations"].append({"sig": [st, "faulted" if p["fault"] else "unfaulted", kinds[:6]], "what": "`%s`%s: %s" % (p["text"], " with an Err injected at handler invocation %d" % p["fault"][0] if p["fault"] else "", detail),
                                       "replay": {"program": p["text"], "tree": p["tree"], "fault": p["fault"], "profile": profile}})
    for kind_, detail, k in events:
        if kind_ in ("signal", "hang", "deadlock"):
            part["violations"].append({"sig": ["crash", kind_], "what": detail, "replay": None})
        else:
            part["inconclusive"].append("%s: %s" % (kind_, detail))
    part["classes"] = sorted(part["classes"])
    return part


def run(rep, tier):
    rep.rule = RULE
    rep.assumptions = ["handlers supplied by the harness log before returning; ids are unique per call site so the log is unambiguous", "&& and || evaluate both operands (the language has no short-circuit operators)"]
    common.build("verifdbg")
    common.build("release")
    n = 24000 if tier == "quick" else 500000
    per = 1000 if tier == "quick" else 10000
    shards = [("ord", i, per, "release" if i % 2 else "verifdbg") for i in range(n // per)]
    shards += [("long", i, 12 if tier == "quick" else 300, "release" if i % 2 else "verifdbg") for i in range(16)]
    for part in common.pmap(run_shard, shards):
        rep.merge(part)
    rep.floor = 5000


def san_shards(tier):
    return [("miri", [("ord", 500 + i, 8, "miri") for i in range(16)])]


def replay(path):
    d = json.load(open(path))
    r = d["replay"]
    model = gen.order_model()
    res, _ = evalcheck.run_programs(PROP, "replay", [{"tree": r["tree"], "text": r["program"], "fault": tuple(r["fault"]) if r["fault"] else None}], r.get("profile", "verifdbg"),
                                    ctx_vars=gen.ORDER_VARS, ctx_fns=gen.ORDER_FNS, pre=gen.ORDER_PRE, model=model, check_ctx=True, check_log=True)
    print(res[0][0], res[0][1])
    if res[0][0].startswith("viol"):
        print("VIOLATION property=%s replay=%s" % (PROP, path))
        return 1
    return 0
