"""C16 — evaluations are deterministic and isolated from one another.
Oracle: differential against the same (program, context, registrations-so-far) evaluated ALONE as the only
evaluation of a fresh process; the implementation is its own reference, so value-level findings cannot alarm."""
import json
from .. import common, gen, ref
from . import c06

PROP = "C16"
RULE = ("pool of programs with near-twins (pairs differing in one literal / operator / name / whitespace only), programs that assign the same variable names, "
        "fail midway, read unbound names, and mention word operators before and after these are registered mid-history; sequential histories of 200-2000 "
        "evaluations in random order (each pair several times), kept ASTs re-executed on fresh equal contexts, parse-only steps bracketed by context "
        "snapshots, and the same on 2-16 threads with separate contexts; every outcome (result, final bindings, expr(), AST) is compared with the alone run. "
        "distinct class = (program id, position bucket in history, sequential | threaded | kept-AST | parse-only)")
WORDS = ["wplus", "wjoin", "wneg", "wpost", "minov", "sumov", "wjoin_left", "wplus_right", "wshl"]
REG = {
    "wplus": {"op": "reg_infix", "name": "wplus", "prec": 110, "type": "CALC", "assoc": "LEFT", "beh": {"id": 501, "ret": "tag"}},
    "wjoin": {"op": "reg_infix", "name": "wjoin", "prec": 30, "type": "CALC", "assoc": "RIGHT", "beh": {"id": 502, "ret": "tag"}},
    "wneg": {"op": "reg_prefix", "name": "wneg", "beh": {"id": 503, "ret": "tag"}},
    # a four-character symbolic operator all of whose proper prefixes (< << <<=) are built-ins: it must lex as one token however many
    # programs were tokenized before it was registered (C16u)
    "wshl": {"op": "reg_infix", "name": "<<==", "prec": 110, "type": "CALC", "assoc": "LEFT", "beh": {"id": 513, "ret": "tag"}},
    "wpost": {"op": "reg_postfix", "name": "wpost", "beh": {"id": 504, "ret": "tag"}},
    # the same operators once more with the same precedence and the OTHER associativity (whichever registration comes last counts)
    "wjoin_left": {"op": "reg_infix", "name": "wjoin", "prec": 30, "type": "CALC", "assoc": "LEFT", "beh": {"id": 512, "ret": "tag"}},
    "wplus_right": {"op": "reg_infix", "name": "wplus", "prec": 110, "type": "CALC", "assoc": "RIGHT", "beh": {"id": 511, "ret": "tag"}},
    # user overrides of built-in functions: they must stay in force whatever other programs do afterwards
    "minov": {"op": "reg_fn", "name": "min", "beh": {"id": 505, "ret": "tag"}},
    "sumov": {"op": "reg_fn", "name": "sum", "beh": {"id": 506, "ret": "tag"}},
}
FNS = {"last": {"id": 9, "log": False, "ret": "last"},
       # function-valued names: `fee` read as a bare name calls the function with no arguments
       "fee": {"id": 10, "log": False, "ret": "const", "v": ["n", "3", 0]}, "rate": {"id": 11, "log": False, "ret": "const", "v": ["n", "12", 0]}, "quota": {"id": 12, "log": False, "ret": "const", "v": ["n", "25", 1]}}
PFN = {"op": "reg_fn", "name": "pfn", "beh": {"id": 599, "ret": "last"}}


def make_pool(rnd, n):
    """list of (text, vars)"""
    g = c06.AsgGen(rnd)
    tg = gen.TypedGen(rnd, use_vars=False)
    pool = []
    while len(pool) < n:
        k = rnd.random()
        if k < 0.45:
            t = g.program()
            text = ref.Renderer(rnd=rnd).render(t) if not (t[0] == "stmt" and not t[1]) else ""
        elif k < 0.7:
            text = ref.Renderer(rnd=rnd).render(tg.gen("A", rnd.randint(1, 4)))
        elif k < 0.8:
            # short numeric programs: many near-identical literals of equal length live in the pool
            text = rnd.choice(["%s - 1", "amount > %s", "%s", "[%s, 2]"]) % ref.num_text(rnd.randrange(10 ** rnd.randint(0, 9)), rnd.choice([0, 0, 2, 2, 3]))
        else:
            w = rnd.choice(WORDS)
            w = {"wjoin_left": "wjoin", "wplus_right": "wplus"}.get(w, w)
            text = {"wplus": "6 wplus 4 wplus 2 * 2", "wjoin": "a wjoin 2 wjoin 3", "wneg": "wneg 3 + 1", "wpost": "7 wpost", "wshl": "7 <<== 5 <<== 2 + 1", "minov": "min(3, 4)", "sumov": "[sum(1, 2), nosuchfunction(1)]"}[w]
            if rnd.random() < 0.25:
                text = rnd.choice(["nosuchfunction(1)", "max(1, nosuch2())", "min(2, 1) + sum(1)", "mul(2, 3) ; undefined_fn()"])
            if rnd.random() < 0.5:
                text = "x = " + text + "; x"
        vars_ = g.init_ctx()
        pool.append((text, vars_))
        # near-twins: same length / prefix / token kinds, one small difference
        if rnd.random() < 0.5 and text:
            i = rnd.randrange(len(text))
            c = text[i]
            if c.isdigit():
                tw = text[:i] + (str((int(c) + 1) % 10) if rnd.random() < 0.5 else {"1": "9", "9": "1", "0": "8", "8": "0"}.get(c, str(9 - int(c)))) + text[i + 1:]
            elif c in "+-":
                tw = text[:i] + ("-" if c == "+" else "+") + text[i + 1:]
            elif c in "abcd":
                tw = text[:i] + "abcd"[("abcd".index(c) + 1) % 4] + text[i + 1:]
            elif c == " ":
                tw = text[:i] + "\t" + text[i + 1:]
            else:
                tw = text
            if tw != text:
                pool.append((tw, vars_))
    pool = pool[:n]
    for _ in range(12):
        L = rnd.randint(3, 12)
        rest = "".join(rnd.choice("0123456789") for _ in range(L - 1))
        if rnd.random() < 0.6 and L > 3:
            d = rnd.randint(1, L - 2)
            rest = rest[:d] + "." + rest[d + 1:]
        da, db = rnd.choice([("1", "9"), ("0", "8"), ("2", "6"), ("3", "7"), ("1", "3"), ("4", "5"), ("1", "5"), ("2", "3")])
        tmpl = rnd.choice(["%s - 1", "amount > %s", "%s", "x = %s; x"])
        vars_ = {"amount": ["n", "50000", 0]}
        pool.append((tmpl % (da + rest), vars_))
        pool.append((tmpl % (db + rest), vars_))
    for text in ["_", "[_, 1]", "_ ; 2", "x = 5; _", "base + fee", "fee * 2", "fee", "rate + quota", "fee(1) + fee", "x = fee; x + fee", "[fee, rate, fee]", "fee + nosuch", "rate = rate + 1; rate", "fee == 3 ? quota : rate"]:
        pool.append((text, {"base": ["n", "10", 0]}))
    # map literals with repeated keys (after evaluation) among distinct ones, lists of maps: construction order is part of the value
    for text in ["{'a': 1, 'b': 2, 'a': 3, 'c': 4}", "{k: 1, 'x': 2, 'y': 3, 'x': 4}", "{1: 'a', 2: 'b', 1.0: 'c', 3: 'd'}", "[{'p': 1, 'q': 2, 'p': 3}, {'q': 1, 'p': 2, 'q': 3}]",
                 "m = {'code': 'STD', 'rate': base + 0.05, 'tier': 2, k: 'VIP'}; m", "{'z': 1, 'y': 2, 'x': 3, 'w': 4, 'v': 5, 'u': 6, 'z': 7}", "{[1]: 1, [2]: 2, [1]: 3, 'k': {true: 1, false: 2, true: 3}}"]:
        pool.append((text, {"base": ["n", "10", 0], "k": ["s", "x"]}))
        pool.append((text, {"base": ["n", "10", 0], "k": ["s", "code"]}))
    # a registered function that panics when asked to (fault injection): other evaluations must not notice
    pool.append(("pfn(1)", {}))
    return pool


def key_of(pi, regs, via=""):
    return "%d|%s|%s" % (pi, ",".join(regs), via)


def cmp_fields(r):
    if r is None:
        return None
    return {k: r.get(k) for k in ("p", "perr", "ast", "expr", "res", "snap", "poisoned")}


def run_alone(wd, name, profile, text, vars_, regs, via=""):
    steps = [PFN] + [REG[w] for w in regs] + [{"op": "ctx", "id": 0, "vars": vars_, "fns": FNS}, dict({"op": "exec", "ctx": 0, "text": text, "want": "ae"}, **({"via": via} if via else {}))]
    run = common.run_vexec(steps, wd, name, profile)
    st = run.steps()
    return cmp_fields(st[-1]) if run.ended and st else None


INNER = ["price(5)", "base + fee", "[price(1), fee, tax]", "x = price(2); [x, fee]", "price(price(1)) ; fee + tax", "tax ; price(9)"]
OUTER = ["[price(1), quote(2), price(3)]", "[quote(2), price(1), fee]", "[fee, quote(1), fee, tax]", "quote(price(1)) ; [price(2), fee]", "tax == 0 ; [quote(0), tax]", "[quote(1), quote(2), price(0)]"]
B_FNS = {"price": {"id": 702, "ret": "tag"}, "fee": {"id": 704, "ret": "const", "v": ["n", "3", 0]}, "tax": {"id": 706, "ret": "const", "v": ["s", "inner"]}}
A_FNS = {"price": {"id": 701, "ret": "tag"}, "fee": {"id": 703, "ret": "const", "v": ["n", "7", 0]}, "tax": {"id": 705, "ret": "const", "v": ["s", "outer"]}}


def nested_runs(si, profile, part):
    """an evaluation nested inside another one (a handler of the outer program evaluates another program on a second, separate
    context that binds functions under the same names): both must give what they give alone"""
    wd = common.workdir(PROP)
    B = 1000001
    for ii, inner in enumerate(INNER):
        for oi, outer in enumerate(OUTER):
            if (ii * len(OUTER) + oi) % 16 != (si - 800) % 16:
                continue
            for via in ("cfn", "gfn", "prefix"):
                if (ii + oi) % 2 and via != "cfn":
                    continue
                otext = outer if via != "prefix" else outer.replace("quote(", "(quote ")
                ctx_b = {"op": "ctx", "id": B, "vars": {"base": ["n", "10", 0]}, "fns": B_FNS}
                quote_plain = {"id": 710, "ret": "last"}
                quote_nest = {"id": 710, "ret": "last", "reenter": {"act": "exec_shared", "ctx": B, "text": inner}}

                def outer_steps(qb):
                    st = []
                    fns = dict(A_FNS)
                    if via == "cfn":
                        fns["quote"] = qb
                    elif via == "gfn":
                        st.append({"op": "reg_fn", "name": "quote", "beh": qb})
                    else:
                        st.append({"op": "reg_prefix", "name": "quote", "beh": qb})
                    st.append({"op": "ctx", "id": 1, "vars": {"base": ["n", "20", 0]}, "fns": fns})
                    st.append({"op": "exec", "ctx": 1, "text": otext, "want": "ae"})
                    return st

                name = "nest-%d-%d-%d-%s-%s" % (si, ii, oi, via, profile)
                r_in = common.run_vexec([ctx_b, {"op": "exec", "ctx": B, "text": inner, "want": "ae"}], wd, name + "-in", profile)
                r_out = common.run_vexec(outer_steps(quote_plain), wd, name + "-out", profile)
                steps = [ctx_b] + outer_steps(quote_nest) + [{"op": "exec", "ctx": B, "text": inner, "want": "ae"}] + outer_steps(quote_nest)[-1:]
                r_n = common.run_vexec(steps, wd, name + "-n", profile)
                if not (r_in.ended and r_out.ended and r_n.ended):
                    kind_, detail = common.crash_verdict(r_n, "nested evaluation")
                    if kind_ in ("signal", "hang", "deadlock"):
                        part["violations"].append({"sig": ["crash", kind_, "nested"], "what": "nested evaluation: " + detail, "replay": None})
                    else:
                        part["inconclusive"].append("nested run did not finish")
                    continue
                a_in = cmp_fields(r_in.steps()[-1])
                a_out = cmp_fields(r_out.steps()[-1])
                sn = r_n.steps()
                outer_rec, inner_after, outer_again = sn[-3], sn[-2], sn[-1]
                nested_res = [e["re"]["res"] for e in outer_rec.get("log", []) if "re" in e]
                part["evaluations"] += 3 + len(nested_res)
                part["counts"]["nested_evaluations"] = part["counts"].get("nested_evaluations", 0) + len(nested_res)
                bad = []
                if not nested_res:
                    bad.append("the handler never ran its nested evaluation")
                for nr in nested_res:
                    if nr != a_in.get("res"):
                        bad.append("the nested evaluation of `%s` gave %s, alone it gives %s" % (inner, json.dumps(nr), json.dumps(a_in.get("res"))))
                for what, rec in (("the outer evaluation", outer_rec), ("the outer program evaluated once more", outer_again)):
                    g = cmp_fields(rec)
                    if g.get("res") != a_out.get("res") or g.get("snap") != a_out.get("snap"):
                        bad.append("%s of `%s` gave %s / %s, with a handler that evaluates nothing it gives %s / %s" % (what, otext, json.dumps(g.get("res")), json.dumps(g.get("snap")), json.dumps(a_out.get("res")), json.dumps(a_out.get("snap"))))
                if cmp_fields(inner_after).get("res") != a_in.get("res"):
                    bad.append("`%s` evaluated on the second context after the nested run gave %s, alone %s" % (inner, json.dumps(inner_after.get("res")), json.dumps(a_in.get("res"))))
                if bad:
                    part["violations"].append({"sig": ["nested-evaluation-differs", via, ii, oi], "what": "outer program `%s` whose %s handler `quote` evaluates `%s` on a second context binding the same function names: %s" % (otext, via, inner, "; ".join(bad)[:900]), "replay": None})
                else:
                    part["classes"].add("nested:%s:i%d:o%d" % (via, ii, oi))


COLD = ["sum(1, 2) + min(3, 4)", "max(1, 2)", "mul(2, 3) ; sum(4)", "1 + 2 * 3", "not (1 in [1])", "'ab' beginWith 'a'", "x = 2; x ++", "AND [true, 1 < 2]", "- 3 + (2 ++)", "min(sum(1, 1), mul(3, 1), 4)",
        "[max(1), {sum(2, 3): 'k'}]", "true ? sum(1, 2, 3) : 0", "v = max(7, 8) ; v -= 1 ; v"]


def cold_runs(si, n, profile, part):
    """evaluations that overlap another thread's FIRST use of the engine in a fresh process (the first caller is parked inside the
    lazy start-up at one of its five stages): each must give what it gives alone"""
    wd = common.workdir(PROP)
    rnd = common.rng(PROP, "cold", si)
    alone = {}
    for h in range(n):
        stage = (h + si) % 5
        a_first = rnd.choice([{"op": "parse", "text": "1 + 2"}, {"op": "exec", "text": "max(1, 2)"}, {"op": "reg_fn", "name": "zz%d" % h, "beh": {"id": 1}}, {"op": "exec", "text": "1"}])
        progs = [rnd.sample(COLD, 3) for _ in range(rnd.choice([1, 2, 3]))]
        steps = [{"op": "init_race", "stage": stage, "a": [a_first], "bs": [[{"op": "exec", "text": t_, "want": "ae"} for t_ in pl] for pl in progs], "wait_ms": 60}]
        run = common.run_vexec(steps, wd, "cold-%d-%d-%s" % (si, h, profile), profile, timeout=120)
        kind_, detail = common.crash_verdict(run, "cold start")
        if kind_ is not None or not run.ended:
            if kind_ in ("signal", "hang", "deadlock"):
                part["violations"].append({"sig": ["crash", kind_, "cold"], "what": "evaluations during another thread's first use: " + detail, "replay": {"steps": steps}})
            else:
                part["inconclusive"].append("%s %s" % (kind_, detail))
            continue
        st = run.steps()
        if not st or not (st[0].get("probe_mask", 0) & (1 << stage)):
            part["inconclusive"].append("init probe never reached stage %d" % stage)
            continue
        part["counts"]["cold_processes"] = part["counts"].get("cold_processes", 0) + 1
        for pl, recs in zip(progs, st[0].get("bs", [])):
            if not isinstance(recs, list):
                part["violations"].append({"sig": ["thread-panicked", "cold"], "what": "a thread evaluating during another thread's first use panicked", "replay": {"steps": steps}})
                continue
            for t_, r in zip(pl, recs):
                if t_ not in alone:
                    ra = common.run_vexec([{"op": "exec", "text": t_, "want": "ae"}], wd, "cold-alone-%d-%d-%s" % (si, len(alone), profile), profile)
                    alone[t_] = cmp_fields(ra.steps()[-1]) if ra.ended and ra.steps() else None
                a = alone[t_]
                if a is None:
                    part["inconclusive"].append("alone run failed")
                    continue
                part["evaluations"] += 1
                part["counts"]["cold_evaluations"] = part["counts"].get("cold_evaluations", 0) + 1
                g = cmp_fields(r)
                if g == a:
                    part["classes"].add("cold:stage%d:%s" % (stage, a_first["op"]))
                else:
                    diff = {k: (g.get(k), a.get(k)) for k in a if g.get(k) != a.get(k)}
                    part["violations"].append({"sig": ["differs-from-alone", "cold-start", "stage%d" % stage], "what": "`%s`, evaluated while another thread's first engine call (%s) was inside the lazy start-up (stage %d), gives %s but alone %s" % (t_, a_first["op"], stage, json.dumps({k: v[0] for k, v in diff.items()})[:300], json.dumps({k: v[1] for k, v in diff.items()})[:300]), "replay": {"steps": steps}})


def deep_concurrent_runs(si, n, profile, part):
    """T threads, each on its own context, evaluate a deeply nested program over and over at the same time (they start together at a
    rendezvous and nothing else synchronises them, so no thread ever waits for another): every evaluation must return what the
    program gives alone"""
    wd = common.workdir(PROP)
    rnd = common.rng(PROP, "deepconc", si)
    for h in range(n):
        T = rnd.choice([4, 8, 16, 16, 32])
        D = rnd.choice([40, 64, 100, 130, 260, 300])
        shape = (h + si) % 4
        inner = "gatef(1)"
        if shape == 0:
            text = "1 + (" * D + inner + ")" * D
        elif shape == 1:
            text = "[" * D + inner + "]" * D
        elif shape == 2:
            text = "true ? (" * D + inner + ") : 0" * D
        else:
            text = "idf(" * D + inner + ")" * D
        regs = lambda g: [{"op": "reg_fn", "name": "gatef", "beh": dict({"id": 30, "ret": "last"}, **({"gate": g} if g else {}))}, {"op": "reg_fn", "name": "idf", "beh": {"id": 31, "ret": "last"}}]
        r0 = common.run_vexec([{"op": "exec", "text": "1 + 1"}] + regs(0) + [{"op": "ctx", "id": 2, "vars": {}}, {"op": "exec", "ctx": 2, "text": text, "nosnap": True}], wd, "deep-alone-%d-%d-%s" % (si, h, profile), profile, timeout=120)
        if not (r0.ended and r0.steps()):
            part["inconclusive"].append("deep program alone did not finish")
            continue
        want = r0.steps()[-1].get("res")
        R = 24
        plans = [[{"op": "ctx", "id": 2 * (t + 1), "vars": {}}, {"op": "meet", "k": 1, "n": T}] + [{"op": "exec", "ctx": 2 * (t + 1), "text": text, "nosnap": True} for _ in range(R)] for t in range(T)]
        steps = [{"op": "exec", "text": "1 + 1"}] + regs(0) + [{"op": "threads", "plans": plans}]
        run = common.run_vexec(steps, wd, "deep-%d-%d-%s" % (si, h, profile), profile, timeout=300)
        kind_, detail = common.crash_verdict(run, "concurrent deep evaluations")
        if kind_ is not None or not run.ended:
            if kind_ in ("signal", "hang", "deadlock"):
                part["violations"].append({"sig": ["crash", kind_, "deepconc"], "what": "%d threads x nesting depth %d: %s" % (T, D, detail), "replay": {"steps": steps}})
            else:
                part["inconclusive"].append("%s %s" % (kind_, detail))
            continue
        if run.gave_up:
            part["inconclusive"].append("concurrent deep evaluations: start rendezvous timed out (machine overloaded); run discarded")
            continue
        th = run.steps()[-1].get("threads", [])
        for t, recs in enumerate(th):
            if not isinstance(recs, list) or len(recs) < 2 + R:
                part["violations"].append({"sig": ["thread-panicked", "deepconc"], "what": "a thread evaluating a depth-%d program panicked" % D, "replay": {"steps": steps}})
                continue
            badr = None
            for r_ in recs[2:]:
                part["evaluations"] += 1
                part["counts"]["deep_concurrent_evaluations"] = part["counts"].get("deep_concurrent_evaluations", 0) + 1
                if r_.get("res") != want and badr is None:
                    badr = r_
            if badr is None:
                part["classes"].add("deepconc:shape%d:T%d:D%d" % (shape, T, D))
            else:
                part["violations"].append({"sig": ["differs-when-concurrent", "deepconc", "shape%d" % shape], "what": "%d threads, each on its own context, evaluate `%s...` (nesting depth %d) %d times each at the same time: thread %d got %s, alone the program gives %s" % (T, text[:24], D, R, t, json.dumps(badr.get("res"))[:200], json.dumps(want)[:200]), "replay": {"steps": steps}})
                break


def run_shard(desc):
    si, nhist, profile = desc
    rnd = common.rng(PROP, si)
    wd = common.workdir(PROP)
    part = {"evaluations": 0, "classes": set(), "violations": [], "samples": [], "abstained": 0, "inconclusive": [], "counts": {"histories": 0, "alone_runs": 0, "sequential_steps": 0, "threaded_steps": 0, "kept_ast_runs": 0, "parse_only_steps": 0}}
    if 700 <= si < 800:
        cold_runs(si, nhist, profile, part)
        part["classes"] = sorted(part["classes"])
        return part
    if 600 <= si < 700:
        deep_concurrent_runs(si, nhist, profile, part)
        part["classes"] = sorted(part["classes"])
        return part
    if 800 <= si < 900:
        nested_runs(si, profile, part)
        part["classes"] = sorted(part["classes"])
        return part
    pool = make_pool(rnd, 60)
    alone = {}

    def alone_of(pi, regs, via=""):
        k = key_of(pi, regs, via)
        if k not in alone:
            alone[k] = run_alone(wd, "alone-%d-%d" % (si, len(alone)), profile, pool[pi][0], pool[pi][1], regs, via)
            part["counts"]["alone_runs"] += 1
        return alone[k]

    def judge(kind, pi, regs, rec, pos, history_desc, via=""):
        a = alone_of(pi, regs, via)
        if a is None or rec is None:
            part["inconclusive"].append("missing record (alone=%s)" % (a is not None))
            return
        if kind == "kept" and a.get("p") != "ok":
            return  # the program does not parse: there is no kept AST to re-run
        part["evaluations"] += 1
        got = cmp_fields(rec)
        if kind == "kept":
            for k in ("p", "perr", "ast"):
                got[k] = a.get(k)
        if got == a:
            part["classes"].add("%s:p%d:pos%d" % (kind, pi, min(pos // 100, 9)))
            if len(part["samples"]) < 2 and pos > 50:
                part["samples"].append({"program": pool[pi][0], "context": pool[pi][1], "position_in_history": pos, "mode": kind, "outcome": rec.get("res")})
        elif len(part["violations"]) < 30:
            diff = {k: (got.get(k), a.get(k)) for k in a if got.get(k) != a.get(k)}
            part["violations"].append({"sig": ["differs-from-alone", kind, sorted(diff)[:3]],
                                       "what": "`%s` on context %s gives %s as evaluation #%d of a %s history (registered so far: %s) but %s when evaluated alone in a fresh process" % (pool[pi][0], json.dumps(pool[pi][1]), json.dumps({k: v[0] for k, v in diff.items()})[:400], pos, history_desc, regs, json.dumps({k: v[1] for k, v in diff.items()})[:400]),
                                       "replay": {"program": pool[pi][0], "vars": pool[pi][1], "regs": regs, "position": pos}})

    for h in range(nhist):
        threaded = h % 3 == 2
        n = rnd.randint(200, 600) if not threaded else rnd.randint(80, 250)
        if nhist == 1 and si >= 900:
            threaded, n = False, (6000 if si == 900 else 12000)
        if threaded:
            # registrations first (they are part of every thread's input), then T threads with own contexts
            regs = rnd.sample(WORDS, rnd.randint(0, 5))
            T = rnd.choice([2, 4, 8, 16])
            plans, metas = [], []
            for t in range(T):
                plan, meta = [], []
                for j in range(n // T + 1):
                    pi = rnd.randrange(len(pool))
                    plan.append({"op": "ctx", "id": j, "vars": pool[pi][1], "fns": FNS})
                    plan.append({"op": "exec", "ctx": j, "text": pool[pi][0], "want": "ae"})
                    meta.append(pi)
                plans.append(plan)
                metas.append(meta)
            steps = [PFN] + [REG[w] for w in regs] + [{"op": "threads", "plans": plans, "jitter_ns": [rnd.randint(0, 20000) for _ in range(T)]}]
            run = common.run_vexec(steps, wd, "thr-%d-%d" % (si, h), profile, timeout=600)
            kind_, detail = common.crash_verdict(run, "threaded history")
            st = run.steps()
            if kind_ is not None or not run.ended or not st or not isinstance(st[-1].get("threads"), list):
                if kind_ in ("signal", "hang", "deadlock"):
                    part["violations"].append({"sig": ["crash", kind_], "what": "threaded history: " + detail, "replay": None})
                else:
                    part["inconclusive"].append("%s %s" % (kind_, detail))
                continue
            part["counts"]["histories"] += 1
            for t, recs in enumerate(st[-1]["threads"]):
                if not isinstance(recs, list):
                    part["violations"].append({"sig": ["thread-panicked"], "what": "a worker thread of a threaded history panicked", "replay": None})
                    continue
                for j, pi in enumerate(metas[t]):
                    if 2 * j + 1 < len(recs):
                        part["counts"]["threaded_steps"] += 1
                        judge("threaded", pi, regs, recs[2 * j + 1], j, "%d-thread" % T)
            continue
        # sequential history
        steps, plan = [PFN], [None]
        regs = []
        to_reg = rnd.sample(WORDS, rnd.randint(0, 5))
        reg_at = sorted(rnd.sample(range(10, n), len(to_reg)))
        kept = {}
        cid = 0
        recent = []  # (context id, index of the exec step that used it)
        for pos in range(n):
            if reg_at and pos == reg_at[0]:
                reg_at.pop(0)
                w = to_reg.pop(0)
                steps.append(REG[w])
                plan.append(None)
                regs = regs + [w]
            pi = rnd.randrange(len(pool))
            cid += 1
            k = rnd.random()
            if rnd.random() < 0.02:
                # some *other* evaluation whose registered-function handler panics (contained by the caller): not judged itself
                steps.append({"op": "exec", "text": "pfn(7) + min(1, 2)", "fault": {"k": 1, "kind": "panic"}})
                plan.append(None)
            if k < 0.12:
                # parse-only step bracketed by snapshots of a live context
                steps.append({"op": "ctx", "id": cid, "vars": pool[pi][1], "fns": FNS})
                plan.append(None)
                steps.append({"op": "snapshot", "ctx": cid})
                plan.append(("snapA", cid))
                steps.append({"op": "parse", "text": pool[rnd.randrange(len(pool))][0], "want": "e"})
                plan.append(None)
                steps.append({"op": "snapshot", "ctx": cid})
                plan.append(("snapB", cid))
            elif k < 0.25 and (pi, tuple(regs)) in kept:
                steps.append({"op": "ctx", "id": cid, "vars": pool[pi][1], "fns": FNS})
                plan.append(None)
                steps.append({"op": "exec_ast", "h": kept[(pi, tuple(regs))], "ctx": cid, "want": "e"})
                plan.append(("kept", pi, list(regs), pos))
            else:
                if recent and rnd.random() < 0.15:
                    # look again at a context that an EARLIER evaluation used: nothing evaluated since (with other contexts) may have
                    # changed it
                    steps.append({"op": "snapshot", "ctx": rnd.choice(recent)[0]})
                    plan.append(("oldsnap", steps[-1]["ctx"]))
                steps.append({"op": "ctx", "id": cid, "vars": pool[pi][1], "fns": FNS})
                plan.append(None)
                if (pi, tuple(regs)) not in kept and rnd.random() < 0.3:
                    steps.append({"op": "parse", "text": pool[pi][0], "keep": cid})
                    plan.append(None)
                    kept[(pi, tuple(regs))] = cid
                via = "execute" if (rnd.random() < 0.3 and si != 901) else ""  # history 901: 12000 evaluations through parse + exec only
                steps.append(dict({"op": "exec", "ctx": cid, "text": pool[pi][0], "want": "ae"}, **({"via": via} if via else {})))
                plan.append(("seq", pi, list(regs), pos, via))
                recent.append((cid, len(steps) - 1))
                del recent[:-12]
        run = common.run_vexec(steps, wd, "seq-%d-%d" % (si, h), profile, timeout=600)
        kind_, detail = common.crash_verdict(run, "sequential history")
        if kind_ is not None or not run.ended:
            if kind_ in ("signal", "hang", "deadlock"):
                part["violations"].append({"sig": ["crash", kind_], "what": "sequential history: " + detail, "replay": {"steps": steps}})
            else:
                part["inconclusive"].append("%s %s" % (kind_, detail))
            continue
        part["counts"]["histories"] += 1
        recs = run.by_index()
        snaps = {}
        for i, pl in enumerate(plan):
            if pl is None or i not in recs:
                continue
            if pl[0] == "snapA":
                snaps[pl[1]] = recs[i].get("snap")
            elif pl[0] == "snapB":
                part["evaluations"] += 1
                part["counts"]["parse_only_steps"] += 1
                if recs[i].get("snap") != snaps.get(pl[1]):
                    part["violations"].append({"sig": ["parse-changed-context"], "what": "a parse-only step changed a live context: %s -> %s" % (json.dumps(snaps.get(pl[1])), json.dumps(recs[i].get("snap"))), "replay": None})
                else:
                    part["classes"].add("parse-only")
            elif pl[0] == "oldsnap":
                part["evaluations"] += 1
                part["counts"]["old_context_snapshots"] = part["counts"].get("old_context_snapshots", 0) + 1
                src = [j for j, p2 in enumerate(plan) if p2 is not None and p2[0] == "seq" and steps[j].get("ctx") == pl[1]]
                before = recs[src[-1]].get("snap") if src and src[-1] in recs else None
                if before is not None and recs[i].get("snap") != before:
                    part["violations"].append({"sig": ["earlier-context-changed"], "what": "the context left behind by `%s` held %s right after that evaluation; after later evaluations on OTHER contexts it holds %s" % (steps[src[-1]].get("text", "")[:120], json.dumps(before)[:300], json.dumps(recs[i].get("snap"))[:300]), "replay": None})
                else:
                    part["classes"].add("old-context-unchanged")
            elif pl[0] == "kept":
                part["counts"]["kept_ast_runs"] += 1
                judge("kept", pl[1], pl[2], recs[i], pl[3], "sequential")
            else:
                part["counts"]["sequential_steps"] += 1
                judge("sequential", pl[1], pl[2], recs[i], pl[3], "sequential", pl[4])
    part["classes"] = sorted(part["classes"])
    return part


def run(rep, tier):
    rep.rule = RULE
    rep.assumptions = ["harness-supplied handlers are pure", "the alone run (fresh process, same registrations in the same order, same context contents) is the reference; error values are compared in their Debug form"]
    common.build("verifdbg")
    common.build("release")
    nh = 48 if tier == "quick" else 1200
    shards = [(900, 1, "release"), (901, 1, "verifdbg")]  # two long histories (thresholds that need thousands of evaluations); first, they take longest
    shards += [(i, nh // 16, "release" if i % 2 else "verifdbg") for i in range(16)]
    shards += [(700 + i, 10 if tier == "quick" else 200, "release" if i % 2 else "verifdbg") for i in range(16)]  # evaluations during another thread's first use
    shards += [(800 + i, 1, "release" if i % 2 else "verifdbg") for i in range(16)] + [(816 + i, 1, "verifdbg" if i % 2 else "release") for i in range(16)]  # nested evaluations on a second context
    shards += [(600 + i, 6 if tier == "quick" else 100, "release" if i % 2 else "verifdbg") for i in range(8)]  # many threads deep inside nested programs at once
    for part in common.pmap(run_shard, shards):
        rep.merge(part)
    rep.floor = 5000


def san_shards(tier):
    return [("tsan", [(500 + i, 3, "tsan") for i in range(16)] + [(700 + i, 6, "tsan") for i in range(8)] + [(800 + i, 1, "tsan") for i in range(16)])]


def replay(path):
    d = json.load(open(path))
    r = d["replay"]
    a = run_alone(common.workdir(PROP, "replay"), "alone", "verifdbg", r["program"], r["vars"], r["regs"])
    print("alone:", json.dumps(a, ensure_ascii=False))
    print("(the in-history outcome depends on the history; re-run `./check C16` to re-judge)")
    return 0
