"""C08 — names and operators dispatch to the handler and binding last registered; registered infix operators
parse with exactly their precedence and associativity.
Every history runs in a fresh process; the sequential model R-REG + R-PARSE + R-EVAL predicts each step from the
registrations that returned before it. Handlers are tagged (result = [id, args...]) so a result names the handler."""
import itertools
import json
from .. import common, gen, ref, evalcheck

PROP = "C08"
RULE = ("(1) dispatch histories of 8-40 steps: registrations of new names, re-registrations (changed handler, precedence, associativity), overrides "
        "of built-ins (min, +, prefix -, ++, in, =) before or after first use, uses of a name before it is registered, contexts that shadow a "
        "global function / bind its name as a variable / rebind the callee while its arguments are evaluated; (2) operator tables with 1-4 "
        "registered infix operators at precedences {1, 2, p-1, p, p+1 for every built-in level p, adjacent pairs, 10^9-1, 10^9, random} and both "
        "associativities, against which all 2-operator and sampled 3-operator chains are parsed. distinct class = (step kind, name, "
        "registered-before-use | after) and (precedence relation, associativity pair)")
LEVELS = [20, 40, 50, 60, 70, 80, 90, 100, 110, 120, 200]
REP_OF_LEVEL = {20: "=", 40: "||", 50: "&&", 60: "<", 70: "|", 80: "^", 90: "&", 100: "<<", 110: "+", 120: "*", 200: "in"}
NEWOPS = ["hi", "xor", "**", "<>", "=>", "onlyif", "mod", "+++"]


class Model:
    def __init__(self):
        self.tab = ref.OpTable()
        self.gfuncs = {}
        self.handlers = {}
        self.nid = 100

    def beh(self):
        self.nid += 1
        return ref.Beh(self.nid, False, "tag")

    def kw(self):
        return dict(table=self.tab, gfuncs=self.gfuncs, handlers=self.handlers)


def reg_step(m, rnd, kind=None):
    """mutates the model and returns the vexec step"""
    kind = kind or gen.wchoice(rnd, [("fn", 3), ("prefix", 2), ("infix", 4), ("postfix", 2)])
    b = m.beh()
    if kind == "fn" and rnd.random() < 0.25:
        # a global function whose handler re-enters the engine while it runs: evaluates a program that calls a global function, or
        # registers another function (the result is still the tagged one)
        name = rnd.choice(["reent", "reent2", "f"])
        m.gfuncs[name] = b
        m.reent = True  # nested evaluations invoke handlers the model does not count: no fault injection by index from here on
        act = rnd.choice([{"act": "exec_fresh", "text": "max(1, 2) + sum(3)"}, {"act": "exec_fresh", "text": "other(1)"}, {"act": "reg_fn", "name": "installed%d" % b.id, "beh": {"id": 7, "ret": "last"}}, {"act": "parse", "text": "1 + 2 * q"}])
        return {"op": "reg_fn", "name": name, "beh": dict(b.to_json(), reenter=act)}
    if kind == "fn":
        name = rnd.choice(["newfn", "other", "min", "max", "f", "sum", "costarring", "liquid", "declinate", "macallums", "altarage", "zinke", "tierAa", "tierBB"])
        m.gfuncs[name] = b
        return {"op": "reg_fn", "name": name, "beh": b.to_json()}
    if kind == "prefix":
        name = rnd.choice(["-", "neg", "!", "AND", "twice", "not", "OR", "+", "not", "~", "@@", "#h", "_op", "é"])
        m.tab.prefix.add(name)
        m.handlers[("prefix", name)] = b
        return {"op": "reg_prefix", "name": name, "beh": b.to_json()}
    if kind == "postfix":
        name = rnd.choice(["++", "pct", "--", "bang", "~~", "@p", "_pp", "°"])
        m.tab.postfix.add(name)
        m.handlers[("postfix", name)] = b
        return {"op": "reg_postfix", "name": name, "beh": b.to_json()}
    name = rnd.choice(["+", "in", "=", "hi", "xor", "**", "hi", "xor", "<>", "-", "==", "&&", "||", "<", "*", "+=", "~>", "@", "#", "_x_", "§"])
    mine = sorted(o for (kk, o) in m.handlers if kk == "infix" and o not in ref.BUILTIN_INFIX)
    if mine and rnd.random() < 0.4:
        # re-register one of the user's operators changing only the associativity or only the precedence
        name = rnd.choice(mine)
        prec, assoc, ty = m.tab.infix[name]
        if rnd.random() < 0.6 and not any(v[0] == prec for k2, v in m.tab.infix.items() if k2 != name):
            assoc = "RIGHT" if assoc == "LEFT" else "LEFT"
        else:
            prec = max(1, prec + rnd.choice([-1, 1, 10, -10]))
            for k2, v in m.tab.infix.items():
                if k2 != name and v[0] == prec:
                    assoc = v[1]
    elif name in ref.BUILTIN_INFIX and rnd.random() < 0.7:
        prec, assoc, ty = ref.BUILTIN_INFIX[name]
    else:
        lvl = rnd.choice(LEVELS)
        prec = max(1, lvl + rnd.choice([-1, 0, 1, 5]))
        assoc = rnd.choice(["LEFT", "RIGHT"])
        ty = ref.BUILTIN_INFIX[name][2] if name in ref.BUILTIN_INFIX else "CALC"
        # keep one associativity per precedence value (mixed associativity at equal precedence is left open)
        for k2, v in m.tab.infix.items():
            if k2 != name and v[0] == prec:
                assoc = v[1]
    m.tab.infix[name] = (prec, assoc, ty)
    m.handlers[("infix", name)] = b
    return {"op": "reg_infix", "name": name, "prec": prec, "type": ty, "assoc": assoc, "beh": b.to_json()}


def use_program(m, rnd):
    """a program exercising the current registries; returns tree"""
    n = lambda v: ["num", str(v), 0]
    infix = sorted(m.tab.infix)
    k = gen.wchoice(rnd, [("infix", 4), ("chain", 4), ("prefix", 2), ("postfix", 2), ("fn", 3), ("builtin", 2), ("assign", 1.5), ("rebind", 0.7)])
    if k == "infix":
        op = rnd.choice(sorted({o for (kk, o) in m.handlers if kk == "infix"} or {"+"}))
        l_, r_ = rnd.choice([(n(6), n(4))] * 3 + [(["bool", False], n(4)), (["bool", True], ["bool", False]), (["bool", False], ["bool", False]), (["str", "a"], n(0)), (n(0), n(0)), (["ref", "nil"], ["list", []])])
        return ["bin", op, l_, r_] if m.tab.infix[op][2] == "CALC" else ["stmt", [["bin", op, ["ref", "v"], n(4)], ["ref", "v"]]]
    if k == "chain":
        ops = [rnd.choice(sorted({o for (kk, o) in m.handlers if kk == "infix"} | {"+", "*", "<", "&&"})) for _ in range(rnd.randint(2, 3))]
        if rnd.random() < 0.4:
            ops = [ops[0]] * len(ops)
        ops = [o for o in ops if m.tab.infix[o][2] == "CALC"] or ["+"]
        toks = ["1"]
        for i, o in enumerate(ops):
            toks += [o, str(i + 2)]
        try:
            return ref.rparse(ref.rtok(" ".join(toks), m.tab), m.tab)
        except (ref.Abstain, ref.ParseError, ref.LexError):
            return ["bin", "+", n(1), n(2)]
    if k == "prefix":
        op = rnd.choice(sorted({o for (kk, o) in m.handlers if kk == "prefix"} or {"-"}))
        return ["un", op, n(3)]
    if k == "postfix":
        op = rnd.choice(sorted({o for (kk, o) in m.handlers if kk == "postfix"} or {"++"}))
        return ["post", n(3), op]
    if k == "fn":
        name = rnd.choice(sorted(set(m.gfuncs) | {"min", "f", "nosuchfn", "costarring", "liquid", "macallums", "zinke", "tierAa", "reent"}))
        return ["fn", name, [n(3), n(1)]]
    if k == "builtin":
        return rnd.choice([["un", "not", ["bool", True]], ["un", "not", ["bin", "in", n(3), ["list", [n(3)]]]], ["un", "!", ["bool", False]], ["un", "AND", ["list", [["bool", True]]]], ["un", "OR", ["list", [["bool", False]]]], ["un", "+", n(2)],
                           ["bin", "+", n(1), n(2)], ["un", "-", n(3)], ["post", n(2), "++"], ["bin", "in", n(3), ["list", [n(3)]]], ["fn", "min", [n(3), n(4)]], ["fn", "max", [n(3), n(4)]],
                           ["stmt", [["bin", "=", ["ref", "v"], n(5)], ["ref", "v"]]], ["bin", "==", n(1), n(1)], ["bin", "-", n(5), n(2)]])
    if k == "assign":
        return ["stmt", [["bin", "=", ["ref", "min"], n(7)], ["fn", "min", [n(3), n(4)]], ["ref", "min"]]]
    # the callee's binding changes while its arguments are evaluated
    return ["fn", "f", [["bin", "=", ["ref", "f"], n(1)]]]


def history(rnd):
    m = Model()
    steps, plan = [], []
    n = rnd.randint(8, 40)
    first_is_reg = rnd.random() < 0.5
    ctx_kinds = ["none", "shadow", "var"]
    early = rnd.sample(NEWOPS[:5], 2)
    reusable = []  # (context id, model of its current contents)
    for i in range(n):
        if (i == 0 and first_is_reg) or (i > 0 and rnd.random() < 0.35):
            steps.append(reg_step(m, rnd))
            plan.append(None)
            continue
        if rnd.random() < 0.15:
            # use of a name before it is registered (result not judged: juxtaposed statements are left open)
            nm = rnd.choice(early)
            steps.append({"op": "exec", "text": "6 %s 4" % nm, "want": "a"})
            plan.append(None)
            continue
        t = use_program(m, rnd)
        ck = rnd.choice(ctx_kinds)
        cvars, cfns, ctx = {"v": ["n", "10", 0]}, {}, {"v": ("n", 10)}
        ctx = {"v": ref.V_num(10)}
        if ck == "shadow":
            b = ref.Beh(900 + i, False, "tag")
            cfns["f"] = b.to_json()
            ctx["f"] = ("fn", b)
            if rnd.random() < 0.5:
                cfns["min"] = ref.Beh(950 + i, False, "tag").to_json()
                ctx["min"] = ("fn", ref.Beh(950 + i, False, "tag"))
        elif ck == "var":
            cvars["max"] = ["n", "77", 0]
            ctx["max"] = ref.V_num(77)
            cvars["newfn"] = ["s", "shadow"]
            ctx["newfn"] = ("s", "shadow")
        text = ref.Renderer(table=m.tab, rnd=rnd).render(t)
        if reusable and rnd.random() < 0.3:
            # the context of an earlier evaluation is used again (registrations may have happened in between): dispatch must follow
            # the registries as they are NOW, whatever this context has seen before
            cid, ctx = reusable[-1]
        else:
            cid = len(steps)
            steps.append({"op": "ctx", "id": cid, "vars": cvars, "fns": cfns})
            plan.append(None)
        fault = None
        if rnd.random() < 0.2 and not getattr(m, "reent", False):
            # one handler invocation of this evaluation fails: nothing else may be called in its place
            fault = (rnd.randint(1, 2), "err")
        steps.append(dict({"op": "exec", "ctx": cid, "text": text, "want": "ae"}, **({"fault": {"k": fault[0], "kind": "err"}} if fault else {})))
        exp, ev = ref.evaluate(t, ctx, fault=fault, **m.kw())
        plan.append((text, t, exp, ev, "first-step-was-registration" if first_is_reg else "first-step-was-use"))
        if exp[0] != "abstain":
            reusable.append((cid, ev.ctx))
        else:
            reusable.clear()
    return steps, plan


def table_config(rnd):
    """-> (reg steps, table, parse texts)"""
    m = Model()
    k = rnd.randint(1, 4)
    names = rnd.sample(NEWOPS, k)
    steps = []
    pool = [1, 2, 10 ** 9 - 1, 10 ** 9, rnd.randint(3, 10 ** 9)]
    for p in LEVELS:
        pool += [p - 1, p, p + 1]
    base = rnd.choice(pool)
    for i, nm in enumerate(names):
        prec = rnd.choice(pool) if rnd.random() < 0.5 else min(10 ** 9, max(1, base + rnd.choice([-1, 0, 1])))
        assoc = rnd.choice(["LEFT", "RIGHT"])
        if rnd.random() < 0.6:
            # mostly one associativity per level; otherwise an operator may sit on an occupied level with the other associativity
            # (programs that mix the two on one level are then left open, everything else must parse as before)
            for k2, v in m.tab.infix.items():
                if v[0] == prec:
                    assoc = v[1]
        ty = "CALC" if rnd.random() < 0.8 else "SETTER"
        m.tab.infix[nm] = (prec, assoc, ty)
        steps.append({"op": "reg_infix", "name": nm, "prec": prec, "type": ty, "assoc": assoc, "beh": {"id": 300 + i, "ret": "tag"}})
    ops = names + [REP_OF_LEVEL[l] for l in LEVELS] + ["-", "/", "=="]
    texts = []
    for a, b in itertools.product(ops, repeat=2):
        if a in names or b in names:
            texts.append("a %s b %s c" % (a, b))
            if b not in m.tab.prefix:
                texts.append("a %s b not %s c" % (a, b))
    trip = [(a, b, c) for a, b, c in itertools.product(ops, repeat=3) if a in names or b in names or c in names]
    for a, b, c in rnd.sample(trip, min(len(trip), 600)):
        texts.append("a %s b %s c %s d" % (a, b, c))
    tg = gen.TreeGen(rnd, table=m.tab, leafp=0.3)
    tg.infix = names * 5 + sorted(ref.BUILTIN_INFIX)
    for _ in range(150):
        texts.append(ref.Renderer(table=m.tab, rnd=rnd, extra_parens=0.05).render(tg.expr(rnd.randint(1, 4))))
    return steps, m.tab, texts


EDGE_PRECS = [1, 2, 3, 19, 20, 21, 109, 110, 111, 199, 200, 201, 255, 256, 32767, 32768, 65535, 65536, (1 << 24) - 1, 1 << 24, (1 << 29) - 1, 1 << 29, (1 << 29) + 1,
              500000000, 536870911, 536870912, 600000000, 900000000, 999999998, 999999999, 1000000000]


def edge_table_config(k):
    """deterministic tables: two or three registered operators at adjacent / extreme precedences, every associativity pair"""
    m = Model()
    i = k % (len(EDGE_PRECS) - 1)
    p1, p2 = EDGE_PRECS[i], EDGE_PRECS[i + 1]
    a1 = "LEFT" if (k // len(EDGE_PRECS)) % 2 == 0 else "RIGHT"
    a2 = "LEFT" if (k // (2 * len(EDGE_PRECS))) % 2 == 0 else "RIGHT"
    specs = [("lo", p1, a1), ("hi", p2, a2), ("mid", (p1 + p2) // 2 if p2 - p1 > 1 else max(1, p1 - 1), a1)]
    steps = []
    for j, (nm, prec, assoc) in enumerate(specs):
        for k2, v in m.tab.infix.items():
            if v[0] == prec:
                assoc = v[1]
        m.tab.infix[nm] = (prec, assoc, "CALC")
        steps.append({"op": "reg_infix", "name": nm, "prec": prec, "type": "CALC", "assoc": assoc, "beh": {"id": 300 + j, "ret": "tag"}})
    ops = ["lo", "hi", "mid", "+", "*", "=", "in", "||"]
    texts = []
    import itertools as it
    for a, b in it.product(ops, repeat=2):
        texts.append("a %s b %s c" % (a, b))
    for a, b, c in it.product(ops[:5], repeat=3):
        texts.append("a %s b %s c %s d" % (a, b, c))
    return steps, m.tab, texts


def big_table_config(rnd):
    m = Model()
    names = ["w%d" % i for i in range(130)] + ["f%dx" % i for i in range(10)]
    steps = []
    for i, nm in enumerate(names):
        prec = rnd.randint(1, 400)
        assoc = rnd.choice(["LEFT", "RIGHT"])
        for k2, v in m.tab.infix.items():
            if v[0] == prec:
                assoc = v[1]
        m.tab.infix[nm] = (prec, assoc, "CALC")
        steps.append({"op": "reg_infix", "name": nm, "prec": prec, "type": "CALC", "assoc": assoc, "beh": {"id": 400 + i, "ret": "tag"}})
    texts = []
    for _ in range(400):
        k = rnd.randint(2, 5)
        ops = [rnd.choice(names + ["+", "*", "<", "&&", "="]) for _ in range(k)]
        toks = ["a"]
        for i, o in enumerate(ops):
            toks += [o, "bcdefg"[i]]
        texts.append(" ".join(toks))
    return steps, m.tab, texts


def rel(tab, a, b):
    pa, pb = tab.infix[a][0], tab.infix[b][0]
    d = pb - pa
    return "%s%s:%s/%s" % ("adjacent" if abs(d) == 1 else ("equal" if d == 0 else ("higher" if d > 0 else "lower")), "", tab.infix[a][1][0], tab.infix[b][1][0])


def run_shard(desc):
    kind, si, n, profile = desc
    rnd = common.rng(PROP, kind, si)
    wd = common.workdir(PROP)
    part = {"evaluations": 0, "classes": set(), "violations": [], "samples": [], "abstained": 0, "inconclusive": [], "counts": {"histories": 0, "tables": 0, "dispatch_steps": 0, "table_parses": 0}}
    if kind == "racereg":
        overrides = [
            ({"op": "reg_fn", "name": "min", "beh": {"id": 7001, "ret": "tag"}}, "min(3, 4)", {"ok": ["l", [["n", "7001", 0], ["n", "3", 0], ["n", "4", 0]]]}),
            ({"op": "reg_infix", "name": "+", "prec": 110, "type": "CALC", "assoc": "LEFT", "beh": {"id": 7002, "ret": "tag"}}, "1 + 2", {"ok": ["l", [["n", "7002", 0], ["n", "1", 0], ["n", "2", 0]]]}),
            ({"op": "reg_prefix", "name": "-", "beh": {"id": 7003, "ret": "tag"}}, "- 5", {"ok": ["l", [["n", "7003", 0], ["n", "5", 0]]]}),
            ({"op": "reg_postfix", "name": "++", "beh": {"id": 7004, "ret": "tag"}}, "5 ++", {"ok": ["l", [["n", "7004", 0], ["n", "5", 0]]]}),
        ]
        for h in range(n):
            stage = (h + si) % 5
            reg, prog, want = overrides[(h // 5 + si) % 4]
            a_first = rnd.choice([{"op": "parse", "text": "1 + 2"}, {"op": "exec", "text": "max(1, 2)"}, {"op": "reg_fn", "name": "zz%d" % h, "beh": {"id": 1}}])
            steps = [{"op": "init_race", "stage": stage, "a": [a_first], "bs": [[reg]], "wait_ms": 100}, {"op": "exec", "text": prog}]
            run = common.run_vexec(steps, wd, "racereg-%d-%d" % (si, h), profile, timeout=120)
            kind_, detail = common.crash_verdict(run, "race")
            if kind_ is not None or not run.ended:
                if kind_ in ("signal", "hang", "deadlock"):
                    part["violations"].append({"sig": ["crash", kind_, "racereg"], "what": detail, "replay": {"steps": steps}})
                else:
                    part["inconclusive"].append("%s %s" % (kind_, detail))
                continue
            st = run.steps()
            if not (st[0].get("probe_mask", 0) & (1 << stage)):
                part["inconclusive"].append("init probe never reached stage %d" % stage)
                continue
            part["evaluations"] += 1
            part["counts"]["override_during_startup"] = part["counts"].get("override_during_startup", 0) + 1
            if st[1].get("res") == want:
                part["classes"].add("override-during-startup:%s:stage%d" % (reg["name"], stage))
            else:
                part["violations"].append({"sig": ["override-during-startup-lost", reg["op"], "stage%d" % stage],
                                           "what": "%s of built-in `%s` returned while another thread's first use was parked inside start-up at stage %d; afterwards `%s` gives %s, expected the registered handler's %s" % (reg["op"], reg["name"], stage, prog, json.dumps(st[1].get("res")), json.dumps(want)),
                                           "replay": {"steps": steps}})
        part["classes"] = sorted(part["classes"])
        return part
    if kind == "concreg":
        # registrations of DIFFERENT names issued by several threads at the same moment (spin rendezvous before each one): once all
        # calls have returned, every one of them is in effect -- on the main thread and inside one program using all of them
        for h in range(n):
            T = rnd.choice([2, 3, 4, 8])
            K = rnd.choice([4, 8, 16])
            mode = ["infix", "prefix", "postfix", "fn", "mixed"][(h + si) % 5]
            plans, checks = [[] for _ in range(T)], []
            for k in range(K):
                for t in range(T):
                    role = mode if mode != "mixed" else ["infix", "prefix", "postfix", "fn"][(t + k) % 4]
                    nm = "cq%dx%dx%d%s" % (h, t, k, "z" * ((t * 7 + k) % 11))
                    hid = 20000 + (h * 64 + k) * 8 + t
                    prog = {"infix": "6 %s 4", "prefix": "%s 4", "postfix": "4 %s", "fn": "%s(1)"}[role] % nm
                    args = {"infix": ["6", "4"], "prefix": ["4"], "postfix": ["4"], "fn": ["1"]}[role]
                    reg = {"op": "reg_" + role, "name": nm, "beh": {"id": hid, "ret": "tag"}}
                    if role == "infix":
                        reg.update({"prec": 110, "type": "CALC", "assoc": "LEFT"})
                    plans[t].append({"op": "meet", "k": (h * 64 + k) % 4096, "n": T})
                    plans[t].append(reg)
                    checks.append((role, nm, prog, {"ok": ["l", [["n", str(hid), 0]] + [["n", a_, 0] for a_ in args]]}))
            steps = [{"op": "exec", "text": "1 + 1"}, {"op": "threads", "plans": plans}] + [{"op": "exec", "text": c[2]} for c in checks]
            run = common.run_vexec(steps, wd, "cq-%d-%d" % (si, h), profile, timeout=300)
            kind_, detail = common.crash_verdict(run, "concurrent registration")
            if kind_ is not None or not run.ended:
                if kind_ in ("signal", "hang", "deadlock"):
                    part["violations"].append({"sig": ["crash", kind_, "concreg"], "what": detail, "replay": {"steps": steps}})
                else:
                    part["inconclusive"].append("%s %s" % (kind_, detail))
                continue
            if run.gave_up:
                part["inconclusive"].append("concurrent registration: %d rendezvous timed out (machine overloaded); run discarded" % run.gave_up)
                continue
            st = run.steps()
            for (role, nm, prog, want), r in zip(checks, st[2:]):
                part["evaluations"] += 1
                part["counts"]["concurrent_registrations_checked"] = part["counts"].get("concurrent_registrations_checked", 0) + 1
                if r.get("res") == want:
                    part["classes"].add("concreg:%s:%s:T%d" % (mode, role, T))
                else:
                    part["violations"].append({"sig": ["concurrent-registration-lost", role], "what": "%d threads each issued %d register_* calls for different names at the same moments (%s); all calls returned, yet `%s` gives %s instead of the registered handler's %s" % (T, K, mode, prog, json.dumps(r.get("res")), json.dumps(want)), "replay": {"steps": steps}})
        part["classes"] = sorted(part["classes"])
        return part
    if kind == "xthread":
        # a registration made on one thread must be used by every later evaluation on EVERY thread, also on a long-lived thread that
        # had already met the word as a plain name (or the built-in handler) before: logical clock, no timing
        for h in range(n):
            role = ["infix", "prefix", "postfix", "fn", "infix-override", "fn-override"][(h + si) % 6]
            nm = {"infix-override": "+", "fn-override": "max"}.get(role, "xw%d%s" % (h, "y" * rnd.randint(0, 9)))
            prog = {"infix": "6 %s 4", "prefix": "%s 4", "postfix": "4 %s", "fn": "%s(1)", "infix-override": "6 %s 4", "fn-override": "%s(1)"}[role] % nm
            args = {"infix": ["6", "4"], "prefix": ["4"], "postfix": ["4"], "fn": ["1"], "infix-override": ["6", "4"], "fn-override": ["1"]}[role]
            hid = 9100 + h
            want = {"ok": ["l", [["n", str(hid), 0]] + [["n", a_, 0] for a_ in args]]}
            if role.startswith("fn"):
                reg = {"op": "reg_fn", "name": nm, "beh": {"id": hid, "ret": "tag"}}
            elif role.startswith("infix"):
                reg = {"op": "reg_infix", "name": nm, "prec": 110, "type": "CALC", "assoc": "LEFT", "beh": {"id": hid, "ret": "tag"}}
            else:
                reg = {"op": "reg_" + role, "name": nm, "beh": {"id": hid, "ret": "tag"}}
            n_old = rnd.choice([1, 2, 3])
            olds = [[{"op": "exec", "text": prog}, {"op": "parse", "text": prog}, {"op": "tick"}, {"op": "wait_tick", "n": n_old + 1}, {"op": "exec", "text": prog, "tag": "after"}, {"op": "parse", "text": "[%s]" % prog}, {"op": "exec", "text": prog, "tag": "after"}] for _ in range(n_old)]
            registrar = [{"op": "wait_tick", "n": n_old}, reg, {"op": "tick"}]
            fresh = [{"op": "wait_tick", "n": n_old + 1}, {"op": "exec", "text": prog, "tag": "after"}]
            steps = [{"op": "exec", "text": "1 + 1"}, {"op": "threads", "plans": olds + [registrar, fresh]}, {"op": "exec", "text": prog, "tag": "after"}]
            run = common.run_vexec(steps, wd, "xt-%d-%d" % (si, h), profile, timeout=120)
            kind_, detail = common.crash_verdict(run, "cross-thread dispatch")
            if kind_ is not None or not run.ended:
                if kind_ in ("signal", "hang", "deadlock"):
                    part["violations"].append({"sig": ["crash", kind_, "xthread"], "what": detail, "replay": {"steps": steps}})
                else:
                    part["inconclusive"].append("%s %s" % (kind_, detail))
                continue
            if run.gave_up:
                part["inconclusive"].append("cross-thread dispatch: %d logical-clock waits timed out (machine overloaded); run discarded" % run.gave_up)
                continue
            st = run.steps()
            th = st[1].get("threads", [])
            seen = [("main thread after the join", st[2])]
            for ti, recs in enumerate(th):
                if not isinstance(recs, list):
                    part["violations"].append({"sig": ["thread-panicked", "xthread"], "what": "a thread panicked", "replay": {"steps": steps}})
                    continue
                for r in recs:
                    if r.get("tag") == "after":
                        seen.append(("thread %d (%s)" % (ti, "had evaluated the program before the registration" if ti < n_old else ("registrar" if ti == n_old else "first call after the registration")), r))
            for who, r in seen:
                part["evaluations"] += 1
                part["counts"]["cross_thread_reads"] = part["counts"].get("cross_thread_reads", 0) + 1
                if r.get("res") == want:
                    part["classes"].add("xthread:%s:%s" % (role, who.split(" (")[-1][:20]))
                else:
                    part["violations"].append({"sig": ["registration-not-seen-on-other-thread", role, who.split(" (")[-1][:30]], "what": "register_%s(`%s`) returned on one thread; `%s` evaluated afterwards on %s gives %s instead of the registered handler's %s" % (role.split("-")[0], nm, prog, who, json.dumps(r.get("res")), json.dumps(want)), "replay": {"steps": steps}})
        part["classes"] = sorted(part["classes"])
        return part
    for h in range(n):
        if kind == "hist":
            steps, plan = history(rnd)
            run = common.run_vexec(steps, wd, "hist-%d-%d" % (si, h), profile)
            kind_, detail = common.crash_verdict(run, "history")
            if kind_ is not None or not run.ended:
                if kind_ in ("signal", "hang", "deadlock"):
                    part["violations"].append({"sig": ["crash", kind_], "what": detail, "replay": {"steps": steps}})
                else:
                    part["inconclusive"].append("%s %s" % (kind_, detail))
                continue
            part["counts"]["histories"] += 1
            recs = run.by_index()
            for i, pl in enumerate(plan):
                if pl is None or i not in recs:
                    continue
                text, t, exp, ev, first = pl
                r = recs[i]
                part["evaluations"] += 1
                part["counts"]["dispatch_steps"] += 1
                if r.get("p") == "ok" and r.get("ast") != t:
                    st, detail = "viol-parse", "parsed as %s, the registered table gives %s" % (json.dumps(r.get("ast")), json.dumps(t))
                else:
                    st, detail = evalcheck.judge(exp, ev, r)
                if st == "abstain":
                    part["abstained"] += 1
                elif st == "norecord":
                    part["inconclusive"].append("dispatch step without a result record (run output damaged)")
                elif st == "pass":
                    part["classes"].add("%s:%s:%s" % (evalcheck.top_op(t), exp[0], first))
                    if len(part["samples"]) < 2 and exp[0] == "ok" and exp[1][0] == "l":
                        part["samples"].append({"history_length": i + 1, "registrations_before": [s["op"] + " " + s["name"] for s in steps[:i] if s["op"].startswith("reg_")], "program": text, "result": evalcheck.fmt_outcome(exp)})
                elif len(part["violations"]) < 40:
                    regs = [s["op"][4:] + " " + s["name"] + (" prec %s %s" % (s["prec"], s["assoc"]) if "prec" in s else "") + " #%d" % s["beh"]["id"] for s in steps[:i] if s["op"].startswith("reg_")]
                    part["violations"].append({"sig": [st, evalcheck.top_op(t).split(" ")[0], first], "what": "after registrations [%s] `%s` (context: %s): %s" % ("; ".join(regs), text, json.dumps(steps[i - 1].get("fns") or steps[i - 1].get("vars")), detail),
                                               "replay": {"steps": steps[: i + 1]}})
        else:
            if kind == "edgetable":
                regs, tab, texts = edge_table_config(si * n + h)
            elif si == 0 and h == 0:
                regs, tab, texts = big_table_config(rnd)
            else:
                regs, tab, texts = table_config(rnd)
            todo = []
            for s in texts:
                try:
                    exp_ = ref.rparse(ref.rtok(s, tab), tab)
                    ops_ = {x[1] for x in gen.subtrees(exp_) if x[0] == "bin" and x[1] in tab.infix}
                    if any(tab.infix[a][0] == tab.infix[b][0] and tab.infix[a][1] != tab.infix[b][1] for a in ops_ for b in ops_):
                        part["abstained"] += 1  # two associativities on one precedence level inside one program: left open
                        continue
                    todo.append((s, exp_))
                except ref.Abstain:
                    part["abstained"] += 1
                except (ref.ParseError, ref.LexError):
                    pass
            steps = regs + [{"op": "parse", "text": s, "want": "a"} for s, _ in todo]
            run = common.run_vexec(steps, wd, "tab-%d-%d" % (si, h), profile)
            if not run.ended:
                part["inconclusive"].append("table run did not end: %s" % (common.crash_verdict(run, "table"),))
                continue
            part["counts"]["tables"] += 1
            recs = run.by_index()
            for j, (s, exp) in enumerate(todo):
                r = recs.get(len(regs) + j)
                if r is None:
                    continue
                part["evaluations"] += 1
                part["counts"]["table_parses"] += 1
                if r.get("p") == "ok" and r.get("ast") == exp:
                    for x in gen.subtrees(exp):
                        if x[0] == "bin":
                            for c in (x[2], x[3]):
                                if c[0] == "bin":
                                    part["classes"].add(rel(tab, x[1], c[1]))
                    if len(part["samples"]) < 2 and j < 3:
                        part["samples"].append({"table": [(r_["name"], r_["prec"], r_["assoc"]) for r_ in regs], "program": s, "ast": exp})
                elif len(part["violations"]) < 40:
                    t = ", ".join("%s=%d/%s" % (r_["name"], r_["prec"], r_["assoc"]) for r_ in regs)
                    involved = sorted({x[1] for x in gen.subtrees(exp) if x[0] == "bin"})
                    rels = sorted({rel(tab, a, b) for a in involved for b in involved if a != b})[:4]
                    part["violations"].append({"sig": ["table-misparse", rels], "what": "with infix operators registered as {%s}, `%s` parses as %s, the table gives %s" % (t, s, json.dumps(r.get("ast") or r.get("perr")), json.dumps(exp)),
                                               "replay": {"steps": regs + [{"op": "parse", "text": s, "want": "a"}], "expected_ast": exp}})
    part["classes"] = sorted(part["classes"])
    return part


def run(rep, tier):
    rep.rule = RULE
    rep.assumptions = ["registries are process-global and nothing can be unregistered: one fresh process per history / table", "left open: equal precedence with different associativity, precedence <= 0 or > 10^9, results of programs that use a name before its registration"]
    common.build("verifdbg")
    common.build("release")
    nh = 640 if tier == "quick" else 20000
    nt = 160 if tier == "quick" else 3200
    shards = [("hist", i, nh // 32, "release" if i % 2 else "verifdbg") for i in range(32)]
    shards += [("table", i, nt // 32, "release" if i % 2 else "verifdbg") for i in range(32)]
    shards += [("edgetable", i, 8, "release" if i % 2 else "verifdbg") for i in range(16)]  # 128 deterministic edge tables
    shards += [("racereg", i, 10 if tier == "quick" else 100, "release" if i % 2 else "verifdbg") for i in range(4)]
    shards += [("xthread", i, 12 if tier == "quick" else 300, "release" if i % 2 else "verifdbg") for i in range(8)]
    shards += [("concreg", i, 10 if tier == "quick" else 200, "release" if i % 2 else "verifdbg") for i in range(8)]
    for part in common.pmap(run_shard, shards):
        rep.merge(part)
    rep.floor = 5000


def san_shards(tier):
    """the cross-thread dispatch and start-up override workloads under ThreadSanitizer"""
    return [("tsan", [("xthread", 300 + i, 12, "tsan") for i in range(8)] + [("racereg", 300 + i, 5, "tsan") for i in range(4)] + [("concreg", 300 + i, 4, "tsan") for i in range(4)])]


def replay(path):
    d = json.load(open(path))
    run = common.run_vexec(d["replay"]["steps"], common.workdir(PROP, "replay"), "replay", "verifdbg")
    last = run.steps()[-1]
    print(json.dumps(last, ensure_ascii=False))
    if "expected_ast" in d["replay"]:
        if last.get("ast") != d["replay"]["expected_ast"]:
            print("VIOLATION property=%s replay=%s" % (PROP, path))
            return 1
        return 0
    print("(dispatch history: re-run `./check C08` to re-judge against the model)")
    return 0
