"""C12 — expr() output re-parses to the same AST; rendering is idempotent.
Oracle: the implementation's own round trip parse -> expr() -> parse, compared structurally
(number mantissa/scale included) and with the crate's PartialEq, plus expr(reparsed) == expr."""
import json
from .. import common, gen, ref
from .c02 import shape, classes_of

PROP = "C12"
RULE = ("exhaustive two-level nestings (every operator kind as parent x every kind as child in every operand slot, built with explicit parentheses), "
        "three-level nestings over one representative per precedence level, random trees with redundant parentheses, literal edge cases, and "
        "bounded-exhaustive token sequences checked online in the executor; distinct class = (parent kind/operator, child kind/operator, slot)")

INFIX = sorted(ref.BUILTIN_INFIX)
REPS = ["=", "+=", "||", "&&", "<", "==", "|", "^", "&", "<<", "+", "*", "in", "beginWith"]


def kinds(full):
    """constructors: each takes a list of child trees and returns (node, arity)"""
    ks = []
    ops = INFIX if full else REPS
    for op in ops:
        ks.append(("bin " + op, 2, lambda c, op=op: ["bin", op, c[0], c[1]]))
        if op not in ref.BUILTIN_PREFIX:
            ks.append(("notbin " + op, 2, lambda c, op=op: ["un", "not", ["bin", op, c[0], c[1]]]))
    for op in ref.BUILTIN_PREFIX if full else ["-", "not", "AND"]:
        ks.append(("un " + op, 1, lambda c, op=op: ["un", op, c[0]]))
    for op in ref.BUILTIN_POSTFIX if full else ["++"]:
        ks.append(("post " + op, 1, lambda c, op=op: ["post", c[0], op]))
    ks.append(("tern", 3, lambda c: ["tern", c[0], c[1], c[2]]))
    ks.append(("fn", 2, lambda c: ["fn", "f", [c[0], c[1]]]))
    ks.append(("list", 2, lambda c: ["list", [c[0], c[1]]]))
    ks.append(("map", 2, lambda c: ["map", [[c[0], c[1]]]]))
    return ks


def leaf(i):
    return [["ref", "a"], ["ref", "b"], ["num", "1", 0], ["ref", "c"], ["num", "25", 1], ["ref", "d"], ["ref", "e"], ["ref", "g"], ["ref", "h"]][i % 9]


def nest2():
    ks = kinds(True)
    for pn, par, pf in ks:
        for slot in range(par):
            for cn, car, cf in ks:
                child = cf([leaf(i) for i in range(car)])
                args = [leaf(3 + i) for i in range(par)]
                args[slot] = child
                yield ("%s[%d]>%s" % (pn, slot, cn), pf(args))


def nest3():
    ks = kinds(False)
    for pn, par, pf in ks:
        for slot in range(par):
            for cn, car, cf in ks:
                for slot2 in range(car):
                    for gn, gar, gf in ks:
                        g = gf([leaf(i) for i in range(gar)])
                        cargs = [leaf(3 + i) for i in range(car)]
                        cargs[slot2] = g
                        args = [leaf(6 + i) for i in range(par)]
                        args[slot] = cf(cargs)
                        yield ("%s[%d]>%s[%d]>%s" % (pn, slot, cn, slot2, gn), pf(args))


def nest2x2():
    """parent(child(g1, g2)): a binary child both of whose operands are themselves compound"""
    ks = kinds(False)
    bins = [k for k in ks if k[0].startswith("bin ") or k[0].startswith("notbin ")]
    inner = [k for k in ks if k[1] <= 2]
    for pn, par, pf in ks:
        for slot in range(par):
            for cn, car, cf in bins:
                for g1n, g1a, g1f in inner[::2]:
                    for g2n, g2a, g2f in inner[1::2]:
                        g1 = g1f([leaf(i) for i in range(g1a)])
                        g2 = g2f([leaf(4 + i) for i in range(g2a)])
                        args = [leaf(6 + i) for i in range(par)]
                        args[slot] = cf([g1, g2])
                        yield ("%s[%d]>%s>(%s,%s)" % (pn, slot, cn, g1n, g2n), pf(args))


SPECIALS = [
    "", " ", "1", "1.10", "0.0", "007", "1.000", "'a\"b'", "\"it's\"", "''", "\"\"", "'é日本'", "[]", "{}", "f()", "[1,]", "{1:2,}", "a;b", "a;b;c", "a;", "1 2", "a b c",
    "'x' + \"y\"", "f('a\"b', \"c'd\")", "{'k\"':1}", "-1", "- -1", "-(-1)", "1 - -1", "1 - (-1)", "a ++ + ++ b".replace("++ b", "b"), "(a)++", "[a, b]++", "f()++", "{1:2}++",
    "not not a", "not (not a)", "!(a)", "AND[a,b]", "OR [a]", "a not in b", "not (a in b)", "not a in b", "(not a) in b", "a in b in c", "a not in b not in c",
    "a = b = c", "(a = b) = c", "a = (b = c)", "a += b -= c", "(a += b) -= c", "a ? b : c ? d : e", "(a ? b : c) ? d : e", "a ? (b ? c : d) : e", "a ? b ? c : d : e",
    "a = b ? c : d", "a = (b ? c : d)", "(a ? b : c) = d", "-(a ? b : c)", "(a ? b : c)++", "[a ? b : c]", "{a ? b : c : d ? e : f}", "f(a ? b : c)",
    "1.50 * 2.0", "79228162514264337593543950335", "0.0000000000000000000000000001",
    "'C:\\temp'", "'a\tb'", "'line1\nline2'", "'\\'", "\"back\\slash\"", "'\r'", "((a + b) * (c + d)) ++", "!((a || b) && (c || d))", "2 - ((a + b) - (c + d))", "-((a + b) * f(x))", "((a ? b : c) ? d : f(e)) ? 1 : 2",
]


def run_shard(desc):
    kind, si, nshards, n, profile = desc
    rnd = common.rng(PROP, kind, si)
    items = []  # (label, text, tree or None)
    if kind in ("nest2", "nest3", "nest2x2"):
        src = nest2() if kind == "nest2" else (nest3() if kind == "nest3" else nest2x2())
        for i, (label, tree) in enumerate(src):
            if i % nshards == si:
                items.append((label, ref.Renderer().render(tree), tree))
    elif kind == "tree":
        tg = gen.TreeGen(rnd)
        for _ in range(n):
            t = tg.program(d=rnd.randint(1, 4))
            rr = ref.Renderer(rnd=rnd, extra_parens=rnd.choice([0, 0.2, 0.4]), trailing_comma=0.1)
            items.append(("tree", ref.join_tokens(rr.tokens(t), rnd=rnd, compact=rnd.choice([0, 1])), t))
    elif kind == "special":
        for s in SPECIALS:
            items.append(("special", s, None))
    elif kind == "strings":
        # every payload of up to 5 characters over {a, ', ", backslash, blank} between either quote, alone and inside a list / an
        # operand position: whatever of these the parser accepts must render to text that re-parses to the same tree
        import itertools
        k = 0
        for L in range(0, 6):
            for chars in itertools.product("a'\"\\ ", repeat=L):
                payload = "".join(chars)
                for q_ in "'\"":
                    k += 1
                    if k % nshards != si:
                        continue
                    lit = q_ + payload + q_
                    items.append(("strings", lit, None))
                    items.append(("strings", rnd.choice(["[%s, 1]", "x + %s", "f(%s)", "{%s: %s}", "%s == %s ? 1 : 2", "- %s ++"]).replace("%s", lit), None))
    elif kind == "long":
        for _ in range(n):
            if rnd.random() < 0.25:
                # flat in the source, deep in the rendering: every `x not OP y` needs a bracket in expr()
                k = rnd.choice([30, 47, 48, 49, 50, 63, 64, 65, 100, 127, 128, 129, 200])
                ops_ = rnd.choice([["in"], ["in", "=="], ["+", "in", "<", "&&"], ["="]])
                toks = ["x"]
                for i in range(k):
                    toks += (["not"] if rnd.random() < 0.9 else []) + [rnd.choice(ops_), rnd.choice(["l%d" % i, "[1]", "y"])]
                try:
                    t = ref.rparse(ref.rtok(" ".join(toks)))
                except (ref.Abstain, ref.ParseError, ref.LexError):
                    continue
                items.append(("long", " ".join(toks), t))
            elif rnd.random() < 0.5:
                toks = gen.long_chain_tokens(rnd, rnd.choice([64, 65, 128, 129, 130, 200, 300]))
                try:
                    t = ref.rparse(ref.rtok(" ".join(toks)))
                except (ref.Abstain, ref.ParseError, ref.LexError):
                    continue
                items.append(("long", " ".join(toks), t))
            else:
                t = gen.deep_nest(rnd, rnd.choice([64, 65, 127, 128, 129, 150]))
                items.append(("long", ref.Renderer(rnd=rnd, extra_parens=0.05).render(t), t))
    part = {"evaluations": 0, "classes": set(), "violations": [], "samples": [], "abstained": 0, "inconclusive": [], "counts": {"wl_" + kind: 0, "c02_mismatch_skipped": 0, "rejected": 0}}
    wd = common.workdir(PROP)
    if kind == "hist":
        # histories with (re-)registered infix operators: rendering must follow the *current* table
        for h in range(n):
            tab = ref.OpTable()
            steps = []
            meta = []
            names = rnd.sample(["joinB", "zz", "**", "<>", "onlyif"], rnd.randint(1, 3))
            hid = 100
            for phase in range(rnd.randint(2, 3)):
                for nm in names:
                    if phase > 0 and rnd.random() < 0.3:
                        continue
                    lvl = rnd.choice([20, 40, 50, 60, 70, 80, 90, 100, 110, 120, 200])
                    prec = max(1, lvl + rnd.choice([-5, -1, 0, 1, 5, 30]))
                    assoc = rnd.choice(["LEFT", "RIGHT"])
                    if any(v[0] == prec and v[1] != assoc for k2, v in tab.infix.items() if k2 != nm):
                        assoc = [v[1] for k2, v in tab.infix.items() if k2 != nm and v[0] == prec][0]
                    tab.infix[nm] = (prec, assoc, "CALC")
                    hid += 1
                    steps.append({"op": "reg_infix", "name": nm, "prec": prec, "type": "CALC", "assoc": assoc, "beh": {"id": hid, "ret": "tag"}})
                    meta.append(None)
                if phase == 0:
                    for wn, role in (("pct", "postfix"), ("bang2", "postfix"), ("neg2", "prefix"), ("~", "postfix"), ("§", "prefix"), ("#pct", "postfix"), ("@up", "postfix"), ("_dec", "postfix"), ("é", "prefix"), ("!!", "postfix"), ("°", "postfix")):
                        if rnd.random() < 0.45:
                            (tab.postfix if role == "postfix" else tab.prefix).add(wn)
                            hid += 1
                            steps.append({"op": "reg_" + role, "name": wn, "beh": {"id": hid, "ret": "tag"}})
                            meta.append(None)
                tg = gen.TreeGen(rnd, table=tab, leafp=0.3)
                tg.infix = names * 6 + rnd.sample(sorted(ref.BUILTIN_INFIX), 8)
                for _ in range(40):
                    t = tg.program(d=rnd.randint(1, 3), max_stmts=2)
                    text = ref.Renderer(table=tab, rnd=rnd).render(t)
                    steps.append({"op": "parse", "text": text, "want": "aer"})
                    meta.append((text, "phase%d" % phase))
            recs, events, _ = common.run_batch(steps, wd, "hist-%d-%d" % (si, h), profile)
            for m, r in zip(meta, recs):
                if m is None or r is None or r.get("p") != "ok":
                    continue
                part["evaluations"] += 1
                part["counts"]["wl_hist"] += 1
                rt = r.get("rt")
                if isinstance(rt, dict) and rt.get("eq") is True and rt.get("ast") == r.get("ast") and rt.get("expr") == r.get("expr"):
                    part["classes"].add("hist:" + m[1])
                elif len(part["violations"]) < 20:
                    v = viol(m[0], r.get("ast"), {"expr": r.get("expr"), "rt": rt})
                    v["sig"] = ["after-reregistration"] + v["sig"][:1]
                    v["what"] = "after re-registering infix operators (%s): %s" % (m[1], v["what"])
                    v["replay"] = {"steps": steps[: recs.index(r) + 1]}
                    part["violations"].append(v)
            for kind_, detail, k in events:
                part["inconclusive"].append("%s: %s" % (kind_, detail))
        part["classes"] = sorted(part["classes"])
        return part
    if kind == "enum":
        alphabet = ["1", "a", "'x'", "(", ")", "+", "*", "-", "!", "++", "?", ":", "=", "not", "in", "[", "]", ",", "f", ";", "{", "}"]
        step = {"op": "enum", "alphabet": alphabet, "minlen": 0, "maxlen": n, "shard": si, "nshards": nshards, "join": " ", "glue_call": True, "tok": False, "exec": False, "rt": True, "sample": 0}
        recs, events, extra = common.run_batch([step], wd, "enum-%d" % si, profile, timeout=1800)
        en = (recs[0] or {}).get("enum", {})
        part["evaluations"] += en.get("rt_checked", 0)
        part["counts"]["wl_enum_inputs"] = en.get("n", 0)
        part["counts"]["wl_enum"] = en.get("rt_checked", 0)
        part["classes"].add("enum:len<=%d" % n)
        for r in extra:
            if "rtfail" in r:
                text = r["rtfail"]
                try:
                    toks = ref.rtok(text)
                    if not ref.in_lmax(toks):
                        part["abstained"] += 1
                        continue
                    if any(t[0] in ("ref", "func") and t[1] in ref.BUILTINS.all_ops() for t in toks):
                        part["abstained"] += 1
                        continue
                except (ref.Abstain, ref.LexError):
                    part["abstained"] += 1
                    continue
                part["violations"].append(viol(text, r.get("ast"), r))
            elif "viol" in r:
                part["violations"].append({"sig": ["panic", r["viol"]], "what": "%s on `%s`: %s" % (r["viol"], r["input"], r["detail"]), "replay": {"steps": [{"op": "parse", "text": r["input"], "want": "aer"}], "profile": profile}})
        for kind_, detail, k in events:
            part["inconclusive"].append("%s: %s" % (kind_, detail))
        part["classes"] = sorted(part["classes"])
        return part
    steps = [{"op": "parse", "text": t, "want": "aer"} for _, t, _ in items]
    recs, events, _ = common.run_batch(steps, wd, "%s-%d" % (kind, si), profile)
    for (label, text, tree), r in zip(items, recs):
        if r is None:
            continue
        if r.get("p") != "ok":
            part["counts"]["rejected"] += 1
            continue
        if tree is not None and r.get("ast") != tree:
            # the parse itself is not the documented one: C02's business, not a rendering verdict
            part["counts"]["c02_mismatch_skipped"] += 1
            continue
        part["evaluations"] += 1
        part["counts"]["wl_" + kind] += 1
        rt = r.get("rt")
        ok = isinstance(rt, dict) and rt.get("eq") is True and rt.get("ast") == r.get("ast") and rt.get("expr") == r.get("expr")
        if ok:
            if kind in ("nest2", "nest3", "nest2x2"):
                part["classes"].add(label)
            else:
                classes_of(r["ast"], part["classes"])
            if len(part["samples"]) < 2:
                part["samples"].append({"source": text, "expr": r.get("expr")})
        elif len(part["violations"]) < 60:
            part["violations"].append(viol(text, r.get("ast"), {"expr": r.get("expr"), "rt": rt, "expr_panic": r.get("expr_panic")}))
    for kind_, detail, k in events:
        if kind_ in ("signal", "hang", "deadlock"):
            part["violations"].append({"sig": ["crash", kind_], "what": "round trip of `%s`: %s" % (items[k][1][:200] if k < len(items) else "?", detail), "replay": None})
        else:
            part["inconclusive"].append("%s: %s" % (kind_, detail))
    part["classes"] = sorted(part["classes"])
    return part


def viol(text, ast, r):
    rt = r.get("rt") if "rt" in r else r
    e = r.get("expr")
    if isinstance(rt, dict) and "err2" in rt or isinstance(rt, dict) and "err" in rt:
        how = "does not re-parse (%s)" % (rt.get("err2") or rt.get("err"))
        sig = ["reparse-error", shape(ast) if ast else None]
    elif isinstance(rt, dict) and ("panic" in rt):
        how = "re-parse panicked: %s" % rt.get("panic")
        sig = ["reparse-panic", shape(ast) if ast else None]
    elif isinstance(rt, dict):
        a2 = rt.get("ast2") if "ast2" in rt else rt.get("ast")
        e2 = rt.get("expr2") if "expr2" in rt else rt.get("expr")
        if a2 != ast:
            how = "re-parses to a different tree %s" % json.dumps(a2, ensure_ascii=False)
            sig = ["different-tree", shape(ast) if ast else None, shape(a2) if a2 else None]
        else:
            how = "is not idempotent: second rendering %r" % e2
            sig = ["not-idempotent", shape(ast) if ast else None]
    else:
        how = "could not be rendered: %s" % json.dumps(r, ensure_ascii=False)[:200]
        sig = ["render-failed", shape(ast) if ast else None]
    return {"sig": sig, "what": "`%s` parses to %s whose expr() %r %s" % (text, json.dumps(ast, ensure_ascii=False), e, how), "replay": {"steps": [{"op": "parse", "text": text, "want": "aer"}]}}


def run(rep, tier):
    rep.rule = RULE
    rep.assumptions = ["round trip is judged on trees the parser produced for grammar-valid programs whose names are not operator words", "structural comparison includes number mantissa and scale"]
    common.build("verifdbg")
    common.build("release")
    shards = [("special", 0, 1, 0, "verifdbg")] + [("strings", i, 4, 0, "release" if i % 2 else "verifdbg") for i in range(4)]
    for i in range(4):
        shards.append(("nest2", i, 4, 0, "verifdbg" if i % 2 else "release"))
    for i in range(16):
        shards.append(("nest3", i, 16, 0, "verifdbg" if i % 2 else "release"))
    for i in range(16):
        shards.append(("nest2x2", i, 16, 0, "verifdbg" if i % 2 else "release"))
    ntree = 60000 if tier == "quick" else 2000000
    per = 2500 if tier == "quick" else 25000
    for i in range(ntree // per):
        shards.append(("tree", i, 0, per, "release" if i % 2 else "verifdbg"))
    for i in range(16):
        shards.append(("long", i, 0, 20 if tier == "quick" else 500, "release" if i % 2 else "verifdbg"))
    nh = 64 if tier == "quick" else 1600
    for i in range(16):
        shards.append(("hist", i, 0, nh // 16, "release" if i % 2 else "verifdbg"))
    L = 4 if tier == "quick" else 5
    for i in range(16):
        shards.append(("enum", i, 16, L, "release"))
    for part in common.pmap(run_shard, shards):
        rep.merge(part)
    rep.extra["exhaustive"] = True
    rep.extra["exhaustive_space"] = "all two-level operator nestings in every slot; all token sequences of length <= %d over a 22-token alphabet" % L
    rep.floor = 1000


def replay(path):
    d = json.load(open(path))
    wd = common.workdir(PROP, "replay")
    run = common.run_vexec(d["replay"]["steps"], wd, "replay", "verifdbg")
    rec = run.steps()[0] if run.steps() else {}
    print(json.dumps(rec, ensure_ascii=False))
    rec = [x for x in run.steps() if x.get("op") == "parse"][-1] if run.steps() else {}
    rt = rec.get("rt")
    if isinstance(rt, dict) and rt.get("eq") and rt.get("ast") == rec.get("ast") and rt.get("expr") == rec.get("expr"):
        return 0
    print("VIOLATION property=%s replay=%s" % (PROP, path))
    return 1
