"""C11 — whitespace and redundant parentheses never change the parse.
Oracle: metamorphic — every layout variant of an accepted program must give the same AST."""
import json
from .. import common, gen, ref
from .c02 import shape

PROP = "C11"
RULE = ("bases: generated programs (token boundaries known by construction) and corrupted/compacted inputs the parser accepts (token boundaries from "
        "the tokenizer hook). variants: whitespace (SP, TAB, CR, LF, CRLF, random strings) inserted at every token boundary incl. before the first and "
        "after the last token, existing whitespace replaced, 1-3 redundant parenthesis pairs around every sub-expression. distinct class = (variant kind, "
        "whitespace kind or node kind, kinds of the neighbouring tokens)")
WSK = [" ", "\t", "\r", "\n", "\r\n", "  ", " \t\r\n ", "\n\n\t", " " * 15, " " * 16, " " * 17, " " * 32, " " * 33, "\t" * 16, "\n" * 16, " " * 64, " " * 255, " " * 256, "\r\n" * 8, " " * 7, " " * 8, " " * 9]


def tok_kind(t):
    if isinstance(t, ref.FnName):
        return "fname"
    if t in ("(", ")", "[", "]", "{", "}", ",", ";"):
        return t
    if t[0] in "0123456789":
        return "num"
    if t[0] in "'\"":
        return "str"
    if t in ref.BUILTINS.all_ops():
        return "op:" + t
    return "name"


def variants_generated(rnd, tree):
    """(label, class, text) layout variants of a generated tree"""
    out = []
    # `not (x OP y)` nodes are written `x not OP y` for about half of them (one decision per node, shared by all variants)
    as_infix = {}
    infix_not = lambda a: as_infix.setdefault(id(a), rnd.random() < 0.5)
    rr = ref.Renderer(rnd=None, infix_not=infix_not)
    toks = rr.tokens(tree)
    n = len(toks)

    def joined(sep):
        # sep[i] = whitespace before token i (i=0: leading), sep[n] trailing
        return "".join(sep[i] + toks[i] for i in range(n)) + sep[n]

    base_sep = [""] + [("" if isinstance(toks[i - 1], ref.FnName) else " ") for i in range(1, n)] + [""]
    base = joined(base_sep)
    out.append(("base", None, base))
    start = rnd.randrange(len(WSK))
    bounds = list(range(n + 1)) if n <= 40 else sorted(rnd.sample(range(n + 1), 40))
    for j, i in enumerate(bounds):
        w = WSK[(start + j) % len(WSK)]
        sep = list(base_sep)
        sep[i] = w if (sep[i] == "" or rnd.random() < 0.5) else sep[i] + w
        left = tok_kind(toks[i - 1]) if i > 0 else "^"
        right = tok_kind(toks[i]) if i < n else "$"
        out.append(("ws", "ws:%r:%s|%s" % (w, left, right), joined(sep)))
    for _ in range(2):
        sep = [rnd.choice(["", " ", "\n"])] + [rnd.choice(WSK) for _ in range(1, n)] + [rnd.choice(["", "\r\n", "\t"])]
        out.append(("relayout", "relayout", joined(sep)))
    if rnd.random() < 0.04:
        # "any amount of whitespace": runs that push the text past 64 KiB / 1 MiB
        for w in (" " * 66000, "\n" * 70000, " \t\r\n" * 20000, " " * (1 << 20)):
            i = rnd.randrange(n + 1)
            sep = list(base_sep)
            sep[i] = sep[i] + w
            out.append(("ws", "ws:huge-%d:%s|%s" % (len(w), tok_kind(toks[i - 1]) if i > 0 else "^", tok_kind(toks[i]) if i < n else "$"), joined(sep)))
    # compact layout: no whitespace where two tokens cannot merge
    sep = [""] + [("" if ref.glue_safe(toks[i - 1], toks[i]) else " ") for i in range(1, n)] + [""]
    out.append(("compact", "compact", joined(sep)))
    nodes = [x for x in gen.subtrees(tree) if x[0] != "stmt"]
    if len(nodes) > 25:
        nodes = rnd.sample(nodes, 25)
    for nd in nodes:
        k = rnd.randint(1, 3) if rnd.random() < 0.93 else rnd.choice([16, 63, 64, 65, 127, 128, 129, 200])
        text = ref.Renderer(wrap={id(nd): k}, infix_not=infix_not).render(tree)
        out.append(("paren", "paren:%d:%s" % (k, nd[0] if nd[0] not in ("bin", "un", "post") else nd[0] + " " + (nd[1] if nd[0] != "post" else nd[2])), text))
    return out


def corrupt(rnd, s):
    if not s:
        return s
    k = rnd.random()
    i = rnd.randrange(len(s))
    if k < 0.3:
        return s[:i] + s[i + 1:]
    if k < 0.6:
        return s[:i] + rnd.choice("+-*/=<>!&|()[]{},;:? '\"1a.é\t") + s[i:]
    if k < 0.8:
        return s[:i] + s[i] + s[i:]
    j = rnd.randrange(len(s))
    return s[:min(i, j)] + s[max(i, j):]


def run_shard(desc):
    kind, si, n, profile = desc
    rnd = common.rng(PROP, kind, si)
    wd = common.workdir(PROP)
    part = {"evaluations": 0, "classes": set(), "violations": [], "samples": [], "abstained": 0, "inconclusive": [], "counts": {"bases_" + kind: 0, "variants_" + kind: 0, "base_not_as_documented": 0}}
    tg = gen.TreeGen(rnd)
    groups = []  # (base_text, [(label, cls, text)])
    if kind == "juxta":
        # statements that follow each other WITHOUT `;` (the documented lenient form). The relation is judged against the crate's own
        # parse of the base; only statements that are complete subexpressions of that parse are wrapped: each statement ends in a token
        # that is not a name (so a following parenthesis cannot read as a call) and starts with an operand token (not a sign).
        ENDS = ["rate = 2", "x = 0.5", "f(1)", "[1, 2]", "{1: 2}", "'s'", "true", "(a + b)", "n ++", "y = 'q'", "z = [3]", "7", "g(a, 2)", "k = (1)", "w = false", "3.10"]
        STARTS = ["rate * 3", "a = 1", "5", "f(2)", "[3]", "{4: 5}", "'t'", "b + 2", "q ? 1 : 2", "not c", "m = 2", "h()", "true", "x == 1", "u ++", "1.5"]
        both = [x for x in ENDS if x in STARTS or x[0] not in "-+!"]
        for _ in range(n):
            k_ = rnd.randint(2, 5)
            stm = [rnd.choice(ENDS)] + [rnd.choice([x for x in STARTS if x in ENDS or True]) for _ in range(k_ - 1)]
            # every statement but the last must also END in a non-name token
            stm = [x if (i_ == k_ - 1 or x in ENDS) else rnd.choice([y for y in ENDS if y[0] not in "("]) for i_, x in enumerate(stm)]
            seps = [rnd.choice([" ", "\n", "\r\n", "\t", "  ", "\n\n"]) for _ in range(k_ - 1)]
            join_ = lambda parts, sp: "".join(p_ + (sp[i_] if i_ < len(sp) else "") for i_, p_ in enumerate(parts))
            base = join_(stm, seps)
            vs = [("base", None, base)]
            for j_ in range(k_):
                for depth in (1, rnd.choice([2, 3, 17])):
                    parts = list(stm)
                    parts[j_] = "(" * depth + parts[j_] + ")" * depth
                    vs.append(("paren", "paren:juxta:%d:%s" % (min(depth, 4), "first" if j_ == 0 else ("last" if j_ == k_ - 1 else "inner")), join_(parts, seps)))
                if j_ < k_ - 1:
                    sp2 = list(seps)
                    sp2[j_] = rnd.choice(WSK)
                    vs.append(("ws", "ws:juxta:%r" % sp2[j_][:3], join_(stm, sp2)))
                    sp3 = list(seps)
                    sp3[j_] = " ; "
                    vs.append(("ws", "semi:juxta", join_(stm, sp3)))
            groups.append((None, vs))
        steps = [{"op": "parse", "text": text, "want": "a"} for _, vs in groups for _, _, text in vs]
        recs, events, _ = common.run_batch(steps, wd, "juxta-%d" % si, profile)
        k = 0
        for _, vs in groups:
            rs = recs[k:k + len(vs)]
            k += len(vs)
            b = rs[0]
            if b is None or b.get("p") != "ok":
                part["counts"]["base_not_as_documented"] += 1
                continue
            part["counts"]["bases_juxta"] += 1
            judge(part, vs[0][2], b, vs[1:], rs[1:], profile)
    elif kind == "gen":
        for _ in range(n):
            t = tg.program(d=rnd.randint(1, 4))
            if rnd.random() < 0.3:
                # flat operator chains (2-5 operators of every level, some negated): every complete sub-expression gets wrapped
                toks_ = [rnd.choice(["a", "x", "1", "f(2)", "[3]"])]
                for i_ in range(rnd.randint(2, 5)):
                    op_ = rnd.choice(sorted(ref.BUILTIN_INFIX))
                    if rnd.random() < 0.3 and op_ not in ref.BUILTIN_PREFIX:
                        toks_.append("not")
                    toks_ += [op_, rnd.choice(["b", "c", "d", "2", "g(y)", "[1, 2]"])]
                try:
                    t = ref.rparse(ref.rtok(" ".join(toks_)))
                except (ref.Abstain, ref.ParseError, ref.LexError):
                    pass
            vs = variants_generated(rnd, t)
            groups.append((t, vs))
        steps = []
        for t, vs in groups:
            for _, _, text in vs:
                steps.append({"op": "parse", "text": text, "want": "a"})
        recs, events, _ = common.run_batch(steps, wd, "gen-%d" % si, profile)
        k = 0
        for t, vs in groups:
            rs = recs[k:k + len(vs)]
            k += len(vs)
            b = rs[0]
            if b is None or b.get("p") != "ok":
                part["counts"]["base_not_as_documented"] += 1
                continue
            if b.get("ast") != t:
                # a base that parses to another tree than the generated one is C02's business, but the relation checked here
                # holds for whatever the base parses to: its layout variants must still agree with it
                part["counts"]["base_not_as_documented"] += 1
            part["counts"]["bases_gen"] += 1
            judge(part, vs[0][2], b, vs[1:], rs[1:], profile)
    else:
        # arbitrary accepted inputs; token boundaries come from the tokenizer hook
        cands = []
        regs = []
        table = ref.BUILTINS
        if kind == "config":
            # a process in which extra operators are registered, some of them in two roles under one symbol (postfix+infix,
            # prefix+infix, prefix+postfix) and as words: the relation is the same, whatever is registered
            table = ref.BUILTINS.copy()
            pool = [("%%", ("postfix", "infix")), ("±", ("prefix", "infix")), ("~", ("prefix", "postfix")), ("pct", ("postfix",)), ("neg", ("prefix",)), ("~>", ("infix",)), ("upto", ("infix",)),
                    ("!!", ("postfix", "infix")), ("§", ("prefix", "postfix", "infix")), ("twice", ("prefix", "infix")), ("++", ("infix",)), ("-", ("postfix",)), ("not", ("postfix",)),
                    ("包含", ("infix",)), ("不等于", ("infix", "prefix")), ("aé", ("postfix",)), ("ünless", ("infix",)), ("≠≠", ("infix",))]
            mine = rnd.sample(pool, rnd.randint(2, 5))
            for nm, roles in mine:
                for role in roles:
                    if role == "infix":
                        prec = rnd.choice([30, 65, 105, 115, 130])
                        assoc = rnd.choice(["LEFT", "RIGHT"])
                        for k2, v in table.infix.items():
                            if v[0] == prec:
                                assoc = v[1]
                        table.infix[nm] = (prec, assoc, "CALC")
                        regs.append({"op": "reg_infix", "name": nm, "prec": prec, "type": "CALC", "assoc": assoc, "beh": {"id": 5}})
                    else:
                        getattr(table, role).add(nm)
                        regs.append({"op": "reg_" + role, "name": nm, "beh": {"id": 6}})
            tg = gen.TreeGen(rnd, table=table)
            names_ = [nm for nm, _ in mine]
            tg.infix = tg.infix + [o for o in names_ if o in table.infix] * 8
            tg.prefix = tg.prefix + [o for o in names_ if o in table.prefix] * 4
            tg.postfix = tg.postfix + [o for o in names_ if o in table.postfix] * 4
        for _ in range(n):
            t = tg.program(d=rnd.randint(1, 3))
            if kind == "config" and rnd.random() < 0.4:
                # flat token walks: operand (op operand)* with prefix/postfix decorations from the whole table
                toks = []
                for q in range(rnd.randint(1, 5)):
                    if q:
                        toks.append(rnd.choice(tg.infix))
                    toks += [rnd.choice(tg.prefix) for _ in range(gen.wchoice(rnd, [(0, 5), (1, 3), (2, 1)]))]
                    toks.append(rnd.choice(["a", "b", "1", "(c)", "f(2)", "[d]", "2.5", "'s'"]))
                    toks += [rnd.choice(tg.postfix) for _ in range(gen.wchoice(rnd, [(0, 5), (1, 3), (2, 0.5)]))]
                s = "".join(x + rnd.choice(["", " ", " "]) for x in toks)
            else:
                s = ref.join_tokens(ref.Renderer(table=table, rnd=rnd, extra_parens=0.1).tokens(t), rnd=rnd, compact=rnd.choice([0.5, 1]))
            for _ in range(rnd.randint(0, 2)):
                s = corrupt(rnd, s)
            cands.append(s)
        steps = []
        for s in cands:
            steps.append({"op": "tokenize", "text": s})
            steps.append({"op": "parse", "text": s, "want": "a"})
        recs, events, _ = common.run_batch(steps, wd, "%s-a-%d" % (kind, si), profile, pre=regs)
        groups = []
        for i, s in enumerate(cands):
            tk, pr = recs[2 * i], recs[2 * i + 1]
            if tk is None or pr is None or pr.get("p") != "ok" or "toks" not in tk:
                continue
            try:
                rt = ref.rtok(s, table)
            except (ref.Abstain, ref.LexError):
                part["abstained"] += 1
                continue
            if any(t[0] in ("ref", "func") and t[1] in table.all_ops() for t in rt):
                part["abstained"] += 1
                continue
            b = s.encode("utf-8")
            toks = tk["toks"]
            cuts = sorted({0, len(b)} | {t[2] for t in toks} | {t[3] for t in toks})
            vs = []
            start = rnd.randrange(len(WSK))
            for j, c in enumerate(cuts):
                w = WSK[(start + j) % len(WSK)]
                vs.append(("ws", "hook-ws:%r" % w, (b[:c] + w.encode() + b[c:]).decode("utf-8")))
            groups.append((s, pr, vs))
        steps = []
        for s, pr, vs in groups:
            for _, _, text in vs:
                steps.append({"op": "parse", "text": text, "want": "a"})
        recs2, events2, _ = common.run_batch(steps, wd, "%s-b-%d" % (kind, si), profile, pre=regs)
        events = list(events) + list(events2)
        k = 0
        for s, pr, vs in groups:
            rs = recs2[k:k + len(vs)]
            k += len(vs)
            part["counts"]["bases_" + kind] += 1
            judge(part, s, pr, vs, rs, profile, regs)
    for kind_, detail, k in events:
        if kind_ in ("signal", "hang", "deadlock"):
            part["violations"].append({"sig": ["crash", kind_], "what": detail, "replay": None})
        else:
            part["inconclusive"].append("%s: %s" % (kind_, detail))
    part["classes"] = sorted(part["classes"])
    return part


def judge(part, base_text, base_rec, vs, rs, profile, regs=()):
    for (label, cls, text), r in zip(vs, rs):
        if r is None:
            continue
        part["evaluations"] += 1
        k = [x for x in part["counts"] if x.startswith("variants_")][0]
        part["counts"][k] = part["counts"].get(k, 0) + 1
        if r.get("p") == "ok" and r.get("ast") == base_rec.get("ast"):
            part["classes"].add(cls)
            if len(part["samples"]) < 2 and label != "base":
                part["samples"].append({"base": base_text, "variant": text, "kind": label})
            continue
        got = json.dumps(r.get("ast"), ensure_ascii=False) if r.get("p") == "ok" else str(r.get("perr") or r.get("ppanic"))
        if len(part["violations"]) < 60:
            part["violations"].append({
                "sig": [label, cls.split(":")[1] if ":" in cls else cls, "rejected" if r.get("p") != "ok" else "different"],
                "what": "%r and its %s variant %r parse differently: %s vs %s" % (base_text, label, text, json.dumps(base_rec.get("ast"), ensure_ascii=False), got),
                "replay": {"steps": list(regs) + [{"op": "parse", "text": base_text, "want": "a"}, {"op": "parse", "text": text, "want": "a"}], "profile": profile},
            })


def run(rep, tier):
    rep.rule = RULE
    rep.assumptions = ["names in bases are not operator words; bases on which the reference tokenizer abstains are skipped"]
    common.build("verifdbg")
    common.build("release")
    nb = 8000 if tier == "quick" else 200000
    nh = 16000 if tier == "quick" else 300000
    per = 500 if tier == "quick" else 5000
    shards = []
    for i in range(nb // per):
        shards.append(("gen", i, per, "release" if i % 2 else "verifdbg"))
    for i in range(nh // (per * 2)):
        shards.append(("hook", i, per * 2, "release" if i % 2 else "verifdbg"))
    for i in range(4 if tier == "quick" else 32):
        shards.append(("juxta", i, 400 if tier == "quick" else 4000, "release" if i % 2 else "verifdbg"))
    for i in range(16 if tier == "quick" else 320):
        shards.append(("config", i, 1000, "release" if i % 2 else "verifdbg"))
    for part in common.pmap(run_shard, shards):
        rep.merge(part)
    rep.floor = 5000


def replay(path):
    d = json.load(open(path))
    wd = common.workdir(PROP, "replay")
    run = common.run_vexec(d["replay"]["steps"], wd, "replay", d["replay"].get("profile", "verifdbg"))
    st = run.steps()[-2:]
    for r in st:
        print(json.dumps(r, ensure_ascii=False))
    if len(st) == 2 and st[0].get("p") == "ok" and st[1].get("p") == "ok" and st[0].get("ast") == st[1].get("ast"):
        return 0
    print("VIOLATION property=%s replay=%s" % (PROP, path))
    return 1
