"""Shared machinery of the evaluation properties: run generated programs through vexec and judge the
recorded result / context / handler log against R-EVAL."""
import json
from . import common, ref


# the injected Err is one of the crate's own error values, rotated so that no error variant is special
ERR_VARIANTS = ["ShouldBeBool", "ParamInvalid", "ShouldBeNumber", "DivideByZero", "FnNotRegistered", "InvalidInteger", "ShouldBeList", "NotReference", "ShouldBeString", "InvalidFloat"]


def value_class(v):
    t = v[0]
    if t == "n":
        f = v[1]
        if f == 0:
            return "zero"
        c = "neg" if f < 0 else "pos"
        if f.denominator != 1:
            return c + "-frac"
        if abs(f) >= (1 << 63):
            return c + "-huge"
        return c + "-int"
    return {"z": "none", "b": "bool", "s": "str", "l": "list", "m": "map"}[t]


def snap_from_record(rec):
    """context snapshot of a record as {name: value | "<fn>"}"""
    s = rec.get("snap")
    if s is None:
        return None
    out = {}
    for k, v in s.items():
        out[k] = v if isinstance(v, str) else ref.value_from_json(v)
    return out


def model_ctx_snapshot(ev):
    out = {}
    for k, v in ev.ctx.items():
        out[k] = "<fn>" if v[0] == "fn" else v
    return out


def log_from_record(rec):
    out = []
    for e in rec.get("log", []):
        if "h" in e:
            out.append((e["h"], e["k"], e["n"], tuple(ref.value_from_json(a) for a in e["a"])))
    return out


def judge(expected, ev, rec, check_ctx=False, check_log=False):
    """-> (status, detail). status: pass | abstain | viol-<kind>"""
    res = rec.get("res")
    if res is None:
        if rec.get("p") == "err":
            return "viol-rejected", "well-formed program was rejected: %s" % rec.get("perr")
        if rec.get("p") == "panic":
            return "viol-panic", "parse panicked: %s" % rec.get("ppanic")
        # a record without a result is a defect of the run (truncated / overwritten output), never a verdict about the engine
        return "norecord", "no result recorded"
    got = ref.outcome_from_record(res)
    if got[0] == "panic" and expected[0] != "panic":
        return "viol-panic", "evaluation panicked: %s @ %s" % (got[1], got[2])
    if expected[0] == "abstain":
        return "abstain", expected[1]
    if expected[0] == "panic":
        if got[0] != "panic":
            return "viol-nopanic", "an injected handler panic did not reach the caller (got %s)" % (got,)
        if "vexec-injected-panic" not in got[1]:
            return "viol-panic-payload", "panic payload changed: %r" % got[1]
    elif expected[0] == "err":
        if got[0] != "err":
            return "viol-noerr", "expected an error, got %s" % (fmt_outcome(got),)
    elif expected[0] == "ok":
        if got[0] != "ok":
            return "viol-err", "expected %s, got %s" % (fmt_value(expected[1]), fmt_outcome(got))
        if got[1] != expected[1]:
            return "viol-value", "expected %s, got %s" % (fmt_value(expected[1]), fmt_value(got[1]))
    if check_log:
        gl = log_from_record(rec)
        if gl != ev.log:
            return "viol-log", "handler call log %s, expected %s" % (fmt_log(gl), fmt_log(ev.log))
    if check_ctx:
        gs = snap_from_record(rec)
        ms = model_ctx_snapshot(ev)
        if rec.get("poisoned"):
            return "viol-poisoned", "context lock is poisoned after the evaluation"
        if gs is None:
            return "viol-snapshot", "context could not be read after the evaluation: %s" % rec.get("snap_panic")
        if gs != ms:
            diff = {k: (fmt_any(gs.get(k)), fmt_any(ms.get(k))) for k in set(gs) | set(ms) if gs.get(k) != ms.get(k)}
            return "viol-ctx", "context after evaluation differs (got, expected): %s" % diff
    return "pass", ""


def fmt_any(v):
    if v is None:
        return "<absent>"
    if isinstance(v, str):
        return v
    return fmt_value(v)


def fmt_value(v):
    t = v[0]
    if t == "z":
        return "None"
    if t == "b":
        return "true" if v[1] else "false"
    if t == "n":
        p = ref.dec_parts(v[1])
        return ref.num_text(*p) if p else str(v[1])
    if t == "s":
        return repr(v[1])
    if t == "l":
        return "[" + ", ".join(fmt_value(x) for x in v[1]) + "]"
    if t == "m":
        return "{" + ", ".join(fmt_value(k) + ": " + fmt_value(x) for k, x in v[1]) + "}"
    return str(v)


def fmt_outcome(o):
    if o[0] == "ok":
        return "Ok(%s)" % fmt_value(o[1])
    if o[0] == "err":
        return "Err"
    return str(o)


def fmt_log(l):
    return "[" + ", ".join("%s#%s(%s)" % (e[2], e[0], ", ".join(fmt_value(a) for a in e[3])) for e in l) + "]"


def run_programs(prop, name, progs, profile, ctx_vars=None, ctx_fns=None, pre=(), model=None, check_ctx=False, check_log=False, want="a", timeout=900):
    """progs: list of dict(tree, text, fault=None|(k,kind), vars=None (extra per-program vars)).
    Each program runs on its own fresh context holding ctx_vars/ctx_fns. Returns list of
    (status, detail, rec, expected_outcome, evaluator)."""
    steps = []
    cv = ctx_vars or {}
    for i, p in enumerate(progs):
        c = {"op": "ctx", "id": i, "vars": dict(cv, **(p.get("vars") or {}))}
        if ctx_fns:
            c["fns"] = ctx_fns
        steps.append(c)
        e = {"op": "exec", "ctx": i, "text": p["text"], "want": want}
        if i % 4 == 3:
            # both public entry points are exercised: every fourth program goes through the one-shot `execute(text, ctx)` (which
            # consumes a context handle) instead of parse_expression + ExprAST::exec
            e["via"] = "execute"
        if p.get("fault"):
            e["fault"] = {"k": p["fault"][0], "kind": p["fault"][1], "variant": ERR_VARIANTS[(p["fault"][0] + len(p["text"])) % len(ERR_VARIANTS)]}
        steps.append(e)
    wd = common.workdir(prop)
    recs, events, _ = common.run_batch(steps, wd, name, profile, pre=pre, timeout=timeout)
    out = []
    model = model or {}
    base_ctx = {k: ref.value_from_json(v) for k, v in cv.items()}
    fn_ctx = {}
    for k, b in (ctx_fns or {}).items():
        fn_ctx[k] = ("fn", ref.Beh(b["id"], b.get("log", False), b.get("ret", "tag"), ref.value_from_json(b["v"]) if "v" in b else None))
    for i, p in enumerate(progs):
        rec = recs[2 * i + 1]
        if rec is None:
            out.append(("norecord", "", None, None, None))
            continue
        if "a" in want and rec.get("p") == "ok" and rec.get("ast") != p["tree"]:
            # the engine's tree differs from the generated one. If the reference parser reads the text differently too, the
            # generator/renderer is at fault (skip). Otherwise the text is still judged by what it means: a wrong grouping
            # that happens to give the same outcome is C02's business, a different outcome is a violation here as well.
            try:
                rt = ref.rparse(ref.rtok(p["text"], (model or {}).get("table", ref.BUILTINS)), (model or {}).get("table", ref.BUILTINS))
            except (ref.Abstain, ref.LexError, ref.ParseError):
                rt = None
            if rt != p["tree"]:
                out.append(("skip-c02", "parsed tree differs from the generated one", rec, None, None))
                continue
        ctx = dict(base_ctx)
        ctx.update(fn_ctx)
        for k, v in (p.get("vars") or {}).items():
            ctx[k] = ref.value_from_json(v)
        exp, ev = ref.evaluate(p["tree"], ctx, fault=p.get("fault"), **model)
        st, detail = judge(exp, ev, rec, check_ctx=check_ctx, check_log=check_log)
        out.append((st, detail, rec, exp, ev))
    return out, events


def top_op(tree):
    k = tree[0]
    if k == "bin":
        return tree[1]
    if k == "un":
        return "prefix " + tree[1]
    if k == "post":
        return "postfix " + tree[2]
    if k == "fn":
        return tree[1] + "()"
    if k == "stmt" and tree[1]:
        return top_op(tree[1][0])
    return k
