"""Workload generators: random reference trees (untyped for the parsing properties, typed for the
evaluation properties), value pools at the edges of every domain, layout policies."""
from fractions import Fraction
from . import ref

NAMES = ["a", "b", "c", "x", "y", "z", "foo", "bar_1", "v.w", "_t", "k9", "é", "éa1", "#k", "@m", "T", "nota", "inn", "ORx",
         "e", "E1", "None", "null", "nan", "inf", "x.y.z", "a_", "self", "truex", "Falsey", "i", "_", "a.1", "q" * 40,
         # the boundary characters of every identifier class: a z A Z 0 9
         "az", "AZ", "taxZone", "zA9", "Zz.z_Z0", "a0z9", "yZ", "TRUE", "FALSE", "tRue", "fALSE", "NOT", "In", "and", "or"]
FNAMES = ["f", "g", "h2", "min", "max", "sum", "mul", "fn_1", "é"]
STRS = ["", "a", "ab", "é", "a b", "it's", 'say "hi"', "x+y", "in", "1,2", "(", "\t", "日本", " ", "not", "]", ";",
        "\\", "\\n", "a\\tb", "\x00", "\n", "\r\n", "?:", "true", "1e5", "#", "s" * 300, "))", "[{", "a'b'c", 'x"y"z', "😀", "\u00a0",
        "\\uD800", "\\uDBFF\\uDFFF", "\\u0041", "\\x41", "\\u{1F600}", "{rhs}", "{lhs}{op}", "{}", "{0}", "%s", "$1", "\ufeffbom", "\ufeff", "Zoë", "東京"]
PARSE_NUMS = [("0", 0), ("1", 0), ("2", 0), ("7", 0), ("10", 0), ("150", 2), ("5", 1), ("1", 1), ("100", 2), ("12345678901234567890", 0), ("1", 28), ("79228162514264337593543950335", 0), ("300", 2), ("7", 3),
              ("2147483648", 0), ("4294967296", 0), ("9223372036854775808", 0), ("18446744073709551616", 0), ("9007199254740993", 0), ("0", 3), ("1000000000000000000", 0), ("255", 0), ("65536", 0)]

CALC_OPS = [o for o, v in ref.BUILTIN_INFIX.items() if v[2] == "CALC"]
SETTER_OPS = [o for o, v in ref.BUILTIN_INFIX.items() if v[2] == "SETTER"]


def wchoice(rnd, pairs):
    tot = sum(w for _, w in pairs)
    x = rnd.random() * tot
    for v, w in pairs:
        x -= w
        if x <= 0:
            return v
    return pairs[-1][0]


class TreeGen:
    """Random reference ASTs over every node kind (no typing: used where only the parse matters)."""

    def __init__(self, rnd, table=ref.BUILTINS, names=NAMES, fnames=FNAMES, strs=STRS, leafp=0.25):
        self.rnd = rnd
        self.tab = table
        self.names = names
        self.fnames = fnames
        self.strs = strs
        self.leafp = leafp
        self.infix = sorted(table.infix)
        self.prefix = sorted(table.prefix)
        self.postfix = sorted(table.postfix)

    def leaf(self):
        r = self.rnd
        k = wchoice(r, [("num", 4), ("ref", 4), ("bool", 1), ("str", 2), ("empty", 1)])
        if k == "num":
            m, s = r.choice(PARSE_NUMS)
            return ["num", m, s]
        if k == "ref":
            return ["ref", r.choice(self.names)]
        if k == "bool":
            return ["bool", r.random() < 0.5]
        if k == "str":
            return ["str", r.choice(self.strs)]
        return r.choice([["list", []], ["map", []], ["fn", r.choice(self.fnames), []]])

    def expr(self, d):
        r = self.rnd
        if d <= 0 or r.random() < self.leafp:
            return self.leaf()
        k = wchoice(r, [("bin", 10), ("notbin", 2), ("un", 3), ("post", 2), ("tern", 2), ("fn", 2), ("list", 1.5), ("map", 1)])
        if k == "bin":
            return ["bin", r.choice(self.infix), self.expr(d - 1), self.expr(d - 1)]
        if k == "notbin":
            return ["un", "not", ["bin", r.choice(self.infix), self.expr(d - 1), self.expr(d - 1)]]
        if k == "un":
            return ["un", r.choice(self.prefix), self.expr(d - 1)]
        if k == "post":
            return ["post", self.expr(d - 1), r.choice(self.postfix)]
        if k == "tern":
            return ["tern", self.expr(d - 1), self.expr(d - 1), self.expr(d - 1)]
        if k == "fn":
            return ["fn", r.choice(self.fnames), [self.expr(d - 1) for _ in range(r.randint(0, 3))]]
        if k == "list":
            return ["list", [self.expr(d - 1) for _ in range(r.randint(0, 3))]]
        return ["map", [[self.expr(d - 1), self.expr(d - 1)] for _ in range(r.randint(0, 2))]]

    def program(self, d=4, max_stmts=3):
        n = wchoice(self.rnd, [(1, 6), (2, 2), (3, 1), (max_stmts, 0.5)])
        stmts = [self.expr(d) for _ in range(n)]
        return stmts[0] if n == 1 else ["stmt", stmts]


def subtrees(a, out=None):
    """all sub-expression nodes of a tree (pre-order), as a list of node objects"""
    if out is None:
        out = []
    out.append(a)
    k = a[0]
    if k == "un":
        subtrees(a[2], out)
    elif k == "bin":
        subtrees(a[2], out)
        subtrees(a[3], out)
    elif k == "post":
        subtrees(a[1], out)
    elif k == "tern":
        for x in a[1:]:
            subtrees(x, out)
    elif k == "fn":
        for x in a[2]:
            subtrees(x, out)
    elif k in ("list", "stmt"):
        for x in a[1]:
            subtrees(x, out)
    elif k == "map":
        for kk, v in a[1]:
            subtrees(kk, out)
            subtrees(v, out)
    return out


def size(a):
    return len(subtrees(a))


def ws_maker(rnd, chars=" \t\r\n", maxlen=3):
    def f():
        return "".join(rnd.choice(chars) for _ in range(rnd.randint(1, maxlen)))

    return f


# ------------------------------------------------------------------------------------------------
# value pools (the edges of every domain)

MAXD = (1 << 96) - 1
I64MAX = (1 << 63) - 1


def N(m, s=0):
    return ("n", Fraction(m, 10 ** s))


def num_lit(m, s=0):
    """AST of a number; negative values are written with the prefix minus"""
    if m < 0:
        return ["un", "-", ["num", str(-m), s]]
    return ["num", str(m), s]


# (mantissa, scale) pairs
NUM_SMALL = [(0, 0), (1, 0), (2, 0), (3, 0), (7, 0), (10, 0), (63, 0), (64, 0), (5, 1), (11, 1), (110, 2), (250, 2), (1, 1), (2, 1), (3, 1), (30, 1), (300, 2), (75, 1)]
NUM_EDGE = [
    (MAXD, 0), (MAXD - 1, 0), (MAXD, 28), (1, 28), (3, 28), (I64MAX, 0), (I64MAX + 1, 0), (1 << 64, 0), ((1 << 64) + 5, 0), (I64MAX, 1),
    (10 ** 28, 0), (10 ** 27, 0), (9999999999999999999999999999, 0), (1234567890123456789012345678, 14), (5 * 10 ** 27, 0), (9007199254740992, 0), (9007199254740993, 0),
    (1 << 32, 0), (65, 0), (0, 5), (6000000000000000000000000000, 1), (3, 2),
    (1 << 31, 0), ((1 << 31) - 1, 0), ((1 << 32) - 1, 0), (10 ** 9, 0), (10 ** 18, 0), (10 ** 19, 0), ((1 << 53) - 1, 0), (1 << 62, 0), (255, 0), (256, 0), (65535, 0), (10 ** 15, 3), (1 << 24, 0), (16777217, 0),
]
NEG = lambda ps: [(-m, s) for m, s in ps if m != 0]


def rand_num(rnd):
    """random decimal: 1-28 significant digits at a random scale"""
    nd = rnd.randint(1, 28)
    m = rnd.randrange(10 ** (nd - 1), 10 ** nd) if nd > 1 else rnd.randrange(0, 10)
    m = min(m, MAXD)
    s = rnd.randint(0, 28)
    if rnd.random() < 0.3:
        m = -m
    return (m, s)


class TypedGen:
    """Random expressions with (mostly) well-typed operands; a fraction `ill` of the operands is drawn
    from a wrong type on purpose. Operands reach the operators as literals and through context
    variables (so negative numbers, None, lists and maps reach them directly)."""

    VARS = {
        "n0": N(0), "n1": N(1), "nm7": N(-7), "nh": N(5, 1), "nmh": N(-5, 1), "n3_0": N(30, 1), "big": N(MAXD), "mbig": N(-MAXD),
        "imax": N(I64MAX), "imin": N(-(1 << 63)), "tiny": N(1, 28), "n64": N(64), "nm1": N(-1), "n9": N(9), "n2": N(2),
        "bt": ("b", True), "bf": ("b", False), "s0": ("s", ""), "sa": ("s", "a"), "sab": ("s", "ab"), "se": ("s", "é"), "sq": ("s", 'a"b'),
        "l0": ("l", ()), "l1": ("l", (N(1), ("s", "a"), ("b", True))), "ln": ("l", (N(3), N(30, 1), ("l", (N(1),)))), "lb": ("l", (("b", True), ("b", False))),
        "m1": ("m", ((("s", "k"), N(1)),)),
        "nz": N(0), "u32max": N(4294967295), "b3e9": N(3037000500), "n2p31": N(2147483648), "nm2p32": N(-4294967296),
    }
    # "nil" is never bound: reads as None

    def __init__(self, rnd, ill=0.08, edge=0.15, use_vars=True, assign=False, funcs=()):
        self.rnd = rnd
        self.ill = ill
        self.edge = edge
        self.use_vars = use_vars
        self.funcs = funcs
        self.var_by_type = {"N": [], "B": [], "S": [], "L": [], "M": []}
        for k, v in self.VARS.items():
            self.var_by_type[{"n": "N", "b": "B", "s": "S", "l": "L", "m": "M"}[v[0]]].append(k)

    def ctx_json(self):
        j = {k: ref.value_to_json(v) for k, v in self.VARS.items()}
        j["nz"] = ["n", "0", 1, True]  # negative zero (-0.0): numerically equal to 0 in every comparison
        return j

    def num_leaf(self):
        r = self.rnd
        if self.use_vars and r.random() < 0.25:
            return ["ref", r.choice(self.var_by_type["N"])]
        x = r.random()
        if x < self.edge:
            m, s = r.choice(NUM_EDGE + NEG(NUM_EDGE))
        elif x < self.edge + 0.1:
            m, s = rand_num(r)
        else:
            m, s = r.choice(NUM_SMALL + NEG(NUM_SMALL[:8]))
        return num_lit(m, s)

    def leaf(self, ty):
        r = self.rnd
        if ty == "N" or ty == "I":
            if ty == "I" and r.random() < 0.7:
                return num_lit(*r.choice([(0, 0), (1, 0), (2, 0), (3, 0), (5, 0), (63, 0), (64, 0), (-1, 0), (-8, 0), (30, 1), (65, 0), (255, 0), (I64MAX, 0), (4, 0)]))
            return self.num_leaf()
        if ty == "B":
            if self.use_vars and r.random() < 0.2:
                return ["ref", r.choice(self.var_by_type["B"])]
            return ["bool", r.random() < 0.5]
        if ty == "S":
            if self.use_vars and r.random() < 0.3:
                return ["ref", r.choice(self.var_by_type["S"])]
            return ["str", r.choice(["", "a", "ab", "b", "abc", "é", "aé", "éa", "x y"])]
        if ty == "L":
            if self.use_vars and r.random() < 0.3:
                return ["ref", r.choice(self.var_by_type["L"])]
            return ["list", [self.leaf(r.choice("NBSN")) for _ in range(r.randint(0, 3))]]
        if ty == "M":
            if self.use_vars and r.random() < 0.5:
                return ["ref", "m1"]
            return ["map", [[self.leaf("S"), self.leaf("N")] for _ in range(r.randint(0, 2))]]
        if ty == "Z":
            return ["ref", "nil"]
        return self.leaf(r.choice("NNBSLZ"))

    def pick(self, ty):
        """operand type, occasionally a wrong one"""
        if self.rnd.random() < self.ill:
            return self.rnd.choice("NBSLMZ")
        return ty

    def gen(self, ty, d):
        r = self.rnd
        if ty == "A":
            ty = r.choice("NNBBSLI")
        if d <= 0 or r.random() < 0.2 or ty in ("S", "M", "Z"):
            return self.leaf(ty)
        g = lambda t: self.gen(self.pick(t), d - 1)
        if ty == "N":
            k = wchoice(r, [("arith", 8), ("neg", 1.5), ("pos", 0.5), ("post", 1.5), ("agg", 2), ("tern", 1.5), ("bit", 1.5)])
            if k == "arith":
                return ["bin", r.choice(["+", "-", "*", "/", "%", "+", "-", "*"]), g("N"), g("N")]
            if k == "neg":
                return ["un", "-", g("N")]
            if k == "pos":
                return ["un", "+", g("N")]
            if k == "post":
                return ["post", g("N"), r.choice(["++", "--"])]
            if k == "agg":
                return ["fn", r.choice(["min", "max", "sum", "mul"]), [g("N") for _ in range(wchoice(r, [(0, 1), (1, 2), (2, 4), (3, 3)]))]]
            if k == "tern":
                return ["tern", g("B"), g("N"), g("N")]
            return self.gen("I", d)
        if ty == "I":
            k = wchoice(r, [("bit", 6), ("shift", 4), ("leaf", 2)])
            if k == "leaf":
                return self.leaf("I")
            if k == "bit":
                return ["bin", r.choice(["|", "^", "&"]), g("I"), g("I")]
            return ["bin", r.choice(["<<", ">>"]), g("I"), g("I")]
        if ty == "B":
            k = wchoice(r, [("cmp", 5), ("eq", 3), ("logic", 3), ("not", 1.5), ("str", 2), ("in", 2), ("notin", 1), ("andor", 1.5), ("tern", 1)])
            if k == "cmp":
                return ["bin", r.choice(["<", "<=", ">", ">="]), g("N"), g("N")]
            if k == "eq":
                t = r.choice("NNBSLZ")
                a = self.gen(t, d - 1)
                b = self.gen(t if r.random() < 0.7 else r.choice("NBSLZ"), d - 1)
                if r.random() < 0.2:
                    b = a
                return ["bin", r.choice(["==", "!="]), a, b]
            if k == "logic":
                return ["bin", r.choice(["&&", "||"]), g("B"), g("B")]
            if k == "not":
                return ["un", r.choice(["!", "not"]), g("B")]
            if k == "str":
                return ["bin", r.choice(["beginWith", "endWith"]), g("S"), g("S")]
            if k in ("in", "notin"):
                needle = self.gen(r.choice("NBS"), d - 1)
                items = [self.gen(r.choice("NBS"), d - 1) for _ in range(r.randint(0, 3))]
                if items and r.random() < 0.5:
                    items[r.randrange(len(items))] = needle
                lst = ["list", items] if r.random() < 0.8 else g("L")
                e = ["bin", "in", needle, lst]
                return ["un", "not", e] if k == "notin" else e
            if k == "andor":
                return ["un", r.choice(["AND", "OR"]), ["list", [g("B") for _ in range(r.randint(0, 3))]]]
            return ["tern", g("B"), g("B"), g("B")]
        if ty == "L":
            return ["list", [self.gen(r.choice("NBSL"), d - 1) for _ in range(r.randint(0, 3))]]
        return self.leaf(ty)


# ------------------------------------------------------------------------------------------------
# programs with observable (logging) handlers: C07, C14, C15

ORDER_PRE = [
    {"op": "reg_fn", "name": "gt", "beh": {"id": 1000, "log": True, "ret": "last"}},
    {"op": "reg_infix", "name": "lop", "prec": 115, "type": "CALC", "assoc": "LEFT", "beh": {"id": 1001, "log": True, "ret": "last"}},
    {"op": "reg_infix", "name": "rop", "prec": 35, "type": "CALC", "assoc": "RIGHT", "beh": {"id": 1002, "log": True, "ret": "last"}},
    {"op": "reg_infix", "name": "sop", "prec": 20, "type": "SETTER", "assoc": "RIGHT", "beh": {"id": 1003, "log": True, "ret": "last"}},
    {"op": "reg_prefix", "name": "pre", "beh": {"id": 1004, "log": True, "ret": "last"}},
    {"op": "reg_postfix", "name": "pst", "beh": {"id": 1005, "log": True, "ret": "last"}},
    {"op": "reg_fn", "name": "sh", "beh": {"id": 1006, "log": True, "ret": "last"}},
]
ORDER_FNS = {
    "t": {"id": 1, "log": True, "ret": "last"},
    "r1": {"id": 11, "log": True, "ret": "const", "v": ["n", "7", 0]},
    "r2": {"id": 12, "log": True, "ret": "const", "v": ["b", True]},
    "r3": {"id": 13, "log": True, "ret": "const", "v": ["n", "25", 1]},
    # `sh` is also registered globally (id 1006): the context binding must shadow it, whatever happens
    "sh": {"id": 14, "log": True, "ret": "last"},
    # context functions that carry the names of built-in aggregates: they shadow the built-ins
    "sum": {"id": 15, "log": True, "ret": "last"},
    "max": {"id": 16, "log": True, "ret": "last"},
}
_BIG = (40, 36)
ORDER_VARS = {"a": ["n", "2", 0], "b": ["n", "35", 1],
              # big values: a 40-element list and a 36-entry map (assignment targets and operands)
              "xs": ["l", [["n", str(i), 0] for i in range(_BIG[0])]], "mp": ["m", [[["s", "k%d" % i], ["n", str(i), 1]] for i in range(_BIG[1])]]}


def set_big(n_list, n_map):
    """resizes the two big variables in place (the Miri tier uses small ones: every context snapshot costs ~1 ms per value there)"""
    ORDER_VARS["xs"] = ["l", [["n", str(i), 0] for i in range(n_list)]]
    ORDER_VARS["mp"] = ["m", [[["s", "k%d" % i], ["n", str(i), 1]] for i in range(n_map)]]


def order_table():
    t = ref.OpTable()
    t.infix["lop"] = (115, "LEFT", "CALC")
    t.infix["rop"] = (35, "RIGHT", "CALC")
    t.infix["sop"] = (20, "RIGHT", "SETTER")
    t.prefix.add("pre")
    t.postfix.add("pst")
    return t


def order_model():
    B = ref.Beh
    return dict(
        table=order_table(),
        gfuncs={"gt": B(1000, True, "last"), "sh": B(1006, True, "last")},
        handlers={("infix", "lop"): B(1001, True, "last"), ("infix", "rop"): B(1002, True, "last"), ("infix", "sop"): B(1003, True, "last"),
                  ("prefix", "pre"): B(1004, True, "last"), ("postfix", "pst"): B(1005, True, "last")},
    )


class OrderGen:
    """Random trees over every node kind in which leaves/inner nodes are logging calls with unique ids;
    the handler log then *is* the evaluation order."""

    def __init__(self, rnd, fn_targets=False):
        self.rnd = rnd
        self.i = 0
        self.fn_targets = fn_targets  # allow assignment targets / bare names bound to context functions

    def uid(self):
        self.i += 1
        return ["num", str(self.i), 0]

    def call(self, *args, f=None):
        x = self.rnd.random()
        f = f or ("gt" if x < 0.13 else ("sh" if x < 0.26 else ("sum" if x < 0.33 else ("max" if x < 0.38 else "t"))))
        if x > 0.985:
            f = self.rnd.choice(["Gt", "GT", "Sh", "T", "gT", "Sum", "MAX"])  # names are case-sensitive: these are bound nowhere
        return ["fn", f, [self.uid()] + list(args)]

    def leaf(self):
        r = self.rnd
        k = wchoice(r, [("t", 6), ("num", 1.5), ("bare", 1.2), ("var", 1)])
        if k == "t":
            return self.call()
        if k == "num":
            return num_lit(*r.choice(NUM_SMALL))
        if k == "bare":
            return ["ref", r.choice(["r1", "r3"])]
        return ["ref", r.choice(["a", "b", "u", "a", "b", "u", "xs", "mp"])]

    def cond(self, d):
        r = self.rnd
        x = r.random()
        if x < 0.5:
            return self.call(["bool", r.random() < 0.5])
        if x < 0.7:
            return ["bin", r.choice(["<", "==", ">="]), self.node(d - 1), self.node(d - 1)]
        if x < 0.8:
            return ["ref", "r2"]
        return ["bin", r.choice(["&&", "||"]), self.call(["bool", r.random() < 0.5]), self.call(["bool", r.random() < 0.5])]

    def node(self, d):
        r = self.rnd
        if d <= 0 or r.random() < 0.22:
            return self.leaf()
        k = wchoice(r, [("arith", 5), ("lop", 2), ("rop", 1.5), ("list", 2), ("map", 1.2), ("call", 3), ("tern", 2.5), ("asg", 2.5), ("un", 1), ("pre", 0.8), ("post", 0.8), ("pst", 0.8), ("in", 1.2), ("notin", 0.5), ("andor", 1.0)])
        n = lambda: self.node(d - 1)
        if k == "andor":
            # prefix AND / OR over a list literal whose elements are observable and yield booleans
            items = [self.cond(d) if r.random() < 0.7 else self.call(["bool", r.random() < 0.6]) for _ in range(r.randint(1, 4))]
            e = ["un", r.choice(["AND", "OR"]), ["list", items]]
            return ["tern", e, n(), n()] if r.random() < 0.4 else e
        if k == "arith":
            if r.random() < 0.15:
                # a chain of relational operators written without parentheses: `a < b <= c` is `(a < b) <= c`, each operand once
                e = n()
                for _ in range(r.randint(2, 4)):
                    e = ["bin", r.choice(["<", "<=", ">", ">=", "==", "!="]), e, n() if r.random() < 0.5 else self.call()]
                return e
            a = n()
            return ["bin", r.choice(["+", "-", "*", "+", "=="]), a, a if r.random() < 0.12 else n()]
        if k in ("lop", "rop"):
            a = n()
            return ["bin", k, a, a if r.random() < 0.12 else n()]
        if k == "list":
            return ["list", [n() for _ in range(r.randint(1, 3))]]
        if k == "map":
            return ["map", [[n(), n()] for _ in range(r.randint(1, 2))]]
        if k == "call":
            if r.random() < 0.25:
                # a call whose argument is directly a call of the same function (context function, global, shadowed aggregate name)
                f = r.choice(["t", "gt", "sh", "sum", "max", "sum"])
                inner = self.call(*[n() for _ in range(r.randint(0, 2))], f=f)
                args = [n() for _ in range(r.randint(0, 2))]
                args.insert(r.randrange(len(args) + 1), inner)
                return self.call(*args, f=f)
            return self.call(*[n() for _ in range(r.randint(1, 3))])
        if k == "tern":
            return ["tern", self.cond(d), n(), n()]
        if k == "asg":
            op = r.choice(["=", "=", "+=", "-=", "sop", "*="])
            tgt = ["ref", r.choice(["a", "b", "u", "a", "b", "u", "xs", "mp"])]
            x = r.random()
            if x < 0.08:
                tgt = self.call()  # not a name: error after both sides were evaluated
            elif self.fn_targets and x < 0.2:
                tgt = ["ref", r.choice(["r1", "r3"])]
            return ["list", [["bin", op, tgt, n()], self.leaf()]] if r.random() < 0.6 else ["bin", op, tgt, n()]
        if k == "un":
            return ["un", "-", n()]
        if k == "pre":
            return ["un", "pre", n()]
        if k == "post":
            return ["post", n(), r.choice(["++", "--"])]
        if k == "pst":
            return ["post", n(), "pst"]
        items = [n() for _ in range(r.randint(1, 3))]
        needle = n()
        if r.random() < 0.6:
            # make the needle equal to an element that is not the last one
            c = num_lit(*r.choice(NUM_SMALL))
            needle = self.call(c)
            items.insert(0, self.call(c))
        e = ["bin", "in", needle, ["list", items]]
        return ["un", "not", e] if k == "notin" else e

    def program(self, d=3):
        self.i = 0
        n = wchoice(self.rnd, [(1, 5), (2, 2), (3, 1)])
        stmts = [self.node(d) for _ in range(n)]
        return stmts[0] if n == 1 else ["stmt", stmts]


# ------------------------------------------------------------------------------------------------
# long programs: size thresholds (operator-chain length, nesting depth, argument counts) are part of "to any size"


def long_chain_tokens(rnd, n, table=ref.BUILTINS, ops=None):
    """flat chain of n operands joined by random infix operators, with occasional `not`, prefix and postfix"""
    ops = ops or sorted(table.infix)
    t = []
    for i in range(n):
        if i:
            op = rnd.choice(ops)
            if rnd.random() < 0.1 and op not in table.prefix:
                t.append("not")
            t.append(op)
        if rnd.random() < 0.1:
            t.append(rnd.choice(["-", "!", "+"]))
        t.append(rnd.choice(["a", "b", "1", "2.5", "x%d" % (i % 7), "'s'", "f(1)", "[1]"]))
        if rnd.random() < 0.07:
            t.append(rnd.choice(["++", "--"]))
    return t


def deep_nest(rnd, depth):
    """a tree that is `depth` levels deep along one spine, mixing every nesting construct"""
    t = rnd.choice([["ref", "x"], ["num", "1", 0]])
    for _ in range(depth):
        k = rnd.choice(["paren+", "list", "map", "fn", "un", "tern-else", "tern-then", "binr", "binl", "post"])
        if k == "paren+":
            t = ["bin", "*", ["bin", "+", t, ["ref", "y"]], ["num", "2", 0]]
        elif k == "list":
            t = ["list", [["num", "0", 0], t]]
        elif k == "map":
            t = ["map", [[["num", "1", 0], t]]]
        elif k == "fn":
            t = ["fn", "f", [t, ["ref", "z"]]]
        elif k == "un":
            t = ["un", rnd.choice(["-", "!", "not"]), t]
        elif k == "tern-else":
            t = ["tern", ["ref", "c"], ["num", "1", 0], t]
        elif k == "tern-then":
            t = ["tern", ["ref", "c"], t, ["num", "1", 0]]
        elif k == "binr":
            t = ["bin", rnd.choice(["-", "=", "&&", "in"]), ["ref", "a"], t]
        elif k == "binl":
            t = ["bin", rnd.choice(["-", "/", "||", "<"]), t, ["ref", "b"]]
        else:
            t = ["post", t, "++"]
    return t
