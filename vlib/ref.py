"""Reference models (the oracles' independent knowledge).

Written from the README, the documented operator table and the property statements; nothing here calls
the crate. ASTs are nested lists in exactly the JSON shape vexec emits:
  ["num", "<mantissa>", scale] ["bool", b] ["str", s] ["ref", n] ["fn", n, [args]] ["un", op, x]
  ["bin", op, l, r] ["post", x, op] ["tern", c, a, b] ["list", [..]] ["map", [[k, v]..]] ["stmt", [..]]
Values are tagged tuples: ("z",) ("b", bool) ("n", Fraction) ("s", str) ("l", (..)) ("m", ((k, v)..)).
"""
from fractions import Fraction
import re
import sys

sys.setrecursionlimit(20000)  # long operator chains and deep nestings are parsed / rendered recursively

WS = " \t\r\n"
OPCHARS = "+-*/^%&!=?:><|"
DELIMS = "()[]{}"
NAMECHARS = set("0123456789abcdefghijklmnopqrstuvwxyzABCDEFGHIJKLMNOPQRSTUVWXYZ._")
TWO96 = 1 << 96


class Abstain(Exception):
    """The reference declines to judge (behaviour left open by the statement)."""


class LexError(Exception):
    pass


class ParseError(Exception):
    pass


# ------------------------------------------------------------------------------------------------
# operator table

BUILTIN_INFIX = {}
for _op in ["=", "+=", "-=", "*=", "/=", "%=", "<<=", ">>=", "&=", "^=", "|="]:
    BUILTIN_INFIX[_op] = (20, "RIGHT", "SETTER")
BUILTIN_INFIX["||"] = (40, "LEFT", "CALC")
BUILTIN_INFIX["&&"] = (50, "LEFT", "CALC")
for _op in ["<", "<=", ">", ">=", "==", "!="]:
    BUILTIN_INFIX[_op] = (60, "LEFT", "CALC")
BUILTIN_INFIX["|"] = (70, "LEFT", "CALC")
BUILTIN_INFIX["^"] = (80, "LEFT", "CALC")
BUILTIN_INFIX["&"] = (90, "LEFT", "CALC")
for _op in ["<<", ">>"]:
    BUILTIN_INFIX[_op] = (100, "LEFT", "CALC")
for _op in ["+", "-"]:
    BUILTIN_INFIX[_op] = (110, "LEFT", "CALC")
for _op in ["*", "/", "%"]:
    BUILTIN_INFIX[_op] = (120, "LEFT", "CALC")
for _op in ["beginWith", "endWith", "in"]:
    BUILTIN_INFIX[_op] = (200, "LEFT", "CALC")
BUILTIN_PREFIX = ["-", "+", "!", "not", "AND", "OR"]
BUILTIN_POSTFIX = ["++", "--"]
BUILTIN_FUNCS = ["min", "max", "sum", "mul"]


class OpTable:
    """Operator registries as a dictionary model (R-REG): register = replace."""

    def __init__(self):
        self.infix = dict(BUILTIN_INFIX)  # op -> (prec, assoc, type)
        self.prefix = set(BUILTIN_PREFIX)
        self.postfix = set(BUILTIN_POSTFIX)

    def copy(self):
        t = OpTable()
        t.infix = dict(self.infix)
        t.prefix = set(self.prefix)
        t.postfix = set(self.postfix)
        return t

    def all_ops(self):
        return set(self.infix) | self.prefix | self.postfix | {"?", ":"}

    def bp(self, op):
        p, assoc, _ = self.infix[op]
        return (2 * p, 2 * p + 1 if assoc == "LEFT" else 2 * p - 1)

    def word_ops(self):
        return {o for o in self.all_ops() if o[0] not in OPCHARS}


BUILTINS = OpTable()


# ------------------------------------------------------------------------------------------------
# R-TOK

NUM_RE = re.compile(r"^[0-9]+(\.[0-9]+)?$")


def number_value(text):
    """(mantissa, scale) of a plain decimal literal, or raises LexError / Abstain."""
    if "e" in text or "E" in text or "+" in text or "-" in text:
        # a complete exponent form (`1e5`, `2.5E-3`) is left open; a marker without digits behind it (`1e`, `2.5E+`) is malformed
        if re.match(r"^[0-9]+(\.[0-9]+)?[eE][+-]?[0-9]+$", text):
            raise Abstain("scientific notation")
        raise LexError("malformed number " + text)
    if text.endswith(".") and text.count(".") == 1:
        raise Abstain("trailing dot")
    if not NUM_RE.match(text):
        raise LexError("malformed number " + text)
    if "." in text:
        ip, fp = text.split(".")
    else:
        ip, fp = text, ""
    if len(fp) > 28:
        raise Abstain("more than 28 fractional digits")
    m = int(ip + fp)
    if m >= TWO96:
        raise Abstain("mantissa beyond 96 bits")
    return m, len(fp)


def rtok(s, table=BUILTINS, strict=True):
    """Reference tokenizer. Returns [(kind, text, start, end)] with byte offsets (UTF-8).
    kinds: op delim num comma semi bool str ref func. Raises LexError for lexically invalid input and
    Abstain where the documented rules leave the classification open."""
    ops = table.all_ops()
    maxop = max(len(o) for o in ops)
    toks = []
    # work on characters but report byte offsets
    boff = [0]
    for ch in s:
        boff.append(boff[-1] + len(ch.encode("utf-8")))
    n = len(s)
    i = 0
    while True:
        while i < n and s[i] in WS:
            i += 1
        if i >= n:
            break
        c = s[i]
        st = i
        if c in OPCHARS:
            j = i + 1
            while j < n and s[st : j + 1] in ops:
                j += 1
            # the statement says "longest registered operator"; stepwise extension differs from it
            # only for operator sets that are not prefix-closed
            k = j
            for L in range(min(n - st, maxop), j - st, -1):
                if s[st : st + L] in ops:
                    k = st + L
                    break
            if k != j:
                raise Abstain("operator set not prefix-closed at %r" % s[st:k])
            toks.append(("op", s[st:j], boff[st], boff[j]))
            i = j
        elif c in DELIMS:
            toks.append(("delim", c, boff[st], boff[st + 1]))
            i += 1
        elif c in "0123456789":
            j = i + 1
            while j < n:
                ch = s[j]
                if ch in "+-" and s[j - 1] not in "eE":
                    break
                if ch in "0123456789.eE+-":
                    j += 1
                else:
                    break
            text = s[st:j]
            number_value(text)  # may raise LexError / Abstain
            toks.append(("num", text, boff[st], boff[j]))
            i = j
        elif c in "\"'":
            j = s.find(c, i + 1)
            if j < 0:
                raise LexError("unterminated string")
            toks.append(("str", s[st + 1 : j], boff[st], boff[j + 1]))
            i = j + 1
        elif c == ";":
            toks.append(("semi", c, boff[st], boff[st + 1]))
            i += 1
        elif c == ",":
            toks.append(("comma", c, boff[st], boff[st + 1]))
            i += 1
        else:
            j = i + 1
            while j < n and s[j] not in WS and s[j] not in DELIMS and s[j] not in ",;":
                j += 1
            run = s[st:j]
            if run in ops:
                toks.append(("op", run, boff[st], boff[j]))
                i = j
                continue
            j = i + 1
            while j < n and s[j] in NAMECHARS:
                j += 1
            name = s[st:j]
            if name in ops:
                raise Abstain("operator word %r glued to %r" % (name, s[j : j + 1]))
            # a longer operator word hidden in the run (e.g. registered "a+") is outside the rules
            if strict:
                for o in ops:
                    if o[0] not in OPCHARS and run.startswith(o) and o != name and len(o) > len(name):
                        raise Abstain("registered operator with unusual characters")
            if name in ("true", "True", "false", "False"):
                toks.append(("bool", "true" if name[0] in "tT" else "false", boff[st], boff[j]))
            else:
                k = j
                while k < n and s[k] in WS:
                    k += 1
                kind = "func" if k < n and s[k] == "(" else "ref"
                toks.append((kind, name, boff[st], boff[j]))
            i = j
    return toks


# ------------------------------------------------------------------------------------------------
# R-PARSE (precedence climbing over reference tokens)


class _P:
    def __init__(self, toks, table):
        self.t = toks
        self.i = 0
        self.tab = table

    def peek(self, k=0):
        return self.t[self.i + k] if self.i + k < len(self.t) else ("eof", "", -1, -1)

    def is_op(self, text, k=0):
        t = self.peek(k)
        return t[0] == "op" and t[1] == text

    def is_delim(self, text):
        t = self.peek()
        return t[0] == "delim" and t[1] == text

    def adv(self):
        t = self.peek()
        self.i += 1
        return t


def rparse(toks, table=BUILTINS):
    """Reference AST of a token list, or raises ParseError (not a sentence) / Abstain."""
    p = _P(toks, table)
    stmts = []
    while p.peek()[0] != "eof":
        stmts.append(_expr(p))
        if p.peek()[0] == "semi":
            p.adv()
        elif p.peek()[0] != "eof":
            raise Abstain("statements not separated by ';'")
    if len(stmts) == 1:
        return stmts[0]
    return ["stmt", stmts]


def _expr(p):
    lhs = _unary(p)
    lhs = _binop(p, lhs, 0)
    if p.is_op("?"):
        p.adv()
        a = _expr(p)
        if not p.is_op(":"):
            raise ParseError("expected ':'")
        p.adv()
        b = _expr(p)
        return ["tern", lhs, a, b]
    return lhs


def _infix_at(p):
    """(negated, op, ntokens) if an infix operator (optionally preceded by `not`) is at the cursor."""
    t = p.peek()
    if t[0] != "op":
        return None
    if t[1] == "not":
        t2 = p.peek(1)
        if t2[0] == "op" and t2[1] in p.tab.infix:
            if t2[1] in p.tab.prefix:
                raise Abstain("`not` followed by an operator that is both prefix and infix")
            return (True, t2[1], 2)
        raise ParseError("`not` must be followed by an infix operator")
    if t[1] in p.tab.infix:
        return (False, t[1], 1)
    return None


def _mixed(tab, a, b):
    return tab.infix[a][0] == tab.infix[b][0] and tab.infix[a][1] != tab.infix[b][1]


def _binop(p, lhs, min_bp, prev=None):
    """precedence climbing: absorbs every infix operator whose left binding power is >= min_bp"""
    while True:
        x = _infix_at(p)
        if x is None:
            return lhs
        neg, op, ntok = x
        if prev is not None and _mixed(p.tab, prev, op):
            raise Abstain("equal precedence, different associativity")
        l_bp, r_bp = p.tab.bp(op)
        if l_bp < min_bp:
            return lhs
        for _ in range(ntok):
            p.adv()
        rhs = _binop(p, _unary(p), r_bp, op)
        lhs = ["bin", op, lhs, rhs]
        if neg:
            lhs = ["un", "not", lhs]
        prev = op


def _unary(p):
    t = p.peek()
    if t[0] == "op":
        if t[1] in p.tab.prefix:
            p.adv()
            return ["un", t[1], _unary(p)]
        raise ParseError("operator %r in operand position" % t[1])
    a = _atom(p)
    t = p.peek()
    if t[0] == "op" and t[1] in p.tab.postfix:
        p.adv()
        t2 = p.peek()
        if t2[0] == "op" and t2[1] in p.tab.postfix:
            raise Abstain("repeated postfix operator")
        return ["post", a, t[1]]
    return a


def _seq(p, close, pair):
    items = []
    while True:
        if p.is_delim(close):
            p.adv()
            return items
        if p.peek()[0] == "eof":
            raise ParseError("unclosed")
        k = _expr(p)
        if pair:
            if not p.is_op(":"):
                raise ParseError("expected ':'")
            p.adv()
            v = _expr(p)
            items.append([k, v])
        else:
            items.append(k)
        if p.is_delim(close):
            p.adv()
            return items
        if p.peek()[0] != "comma":
            raise ParseError("expected ','")
        p.adv()


def _atom(p):
    t = p.adv()
    k = t[0]
    if k == "num":
        m, s = number_value(t[1])
        return ["num", str(m), s]
    if k == "bool":
        return ["bool", t[1] == "true"]
    if k == "str":
        return ["str", t[1]]
    if k == "ref":
        return ["ref", t[1]]
    if k == "func":
        if not p.is_delim("("):
            raise ParseError("expected '('")
        p.adv()
        if p.is_delim(")"):
            p.adv()
            return ["fn", t[1], []]
        args = []
        while True:
            args.append(_expr(p))
            if p.is_delim(")"):
                p.adv()
                return ["fn", t[1], args]
            if p.peek()[0] != "comma":
                raise ParseError("expected ',' or ')'")
            p.adv()
            if p.is_delim(")"):
                raise Abstain("trailing comma in call")
    if k == "delim":
        if t[1] == "(":
            e = _expr(p)
            if not p.is_delim(")"):
                raise ParseError("expected ')'")
            p.adv()
            return e
        if t[1] == "[":
            return ["list", _seq(p, "]", False)]
        if t[1] == "{":
            return ["map", _seq(p, "}", True)]
        raise ParseError("closing delimiter in operand position")
    raise ParseError("unexpected token %r" % (t,))


# ------------------------------------------------------------------------------------------------
# R-GRAM: lenient recogniser L_max (set-of-end-positions, memoised)


def in_lmax(toks, table=BUILTINS):
    """True iff the token list is a sentence of the leniently read grammar."""
    n = len(toks)
    kinds = [t[0] for t in toks]
    texts = [t[1] for t in toks]
    memo = {}

    def isop(i, text):
        return i < n and kinds[i] == "op" and texts[i] == text

    def isdel(i, text):
        return i < n and kinds[i] == "delim" and texts[i] == text

    def unary(i):
        key = ("u", i)
        if key in memo:
            return memo[key]
        memo[key] = frozenset()
        res = set()
        if i < n:
            if kinds[i] == "op" and texts[i] in table.prefix:
                res |= unary(i + 1)
            for e in atom(i):
                res.add(e)
                j = e
                while j < n and kinds[j] == "op" and texts[j] in table.postfix:
                    j += 1
                    res.add(j)
        memo[key] = frozenset(res)
        return memo[key]

    def binary(i):
        """ends of: unary ( NOT? INFIX unary )*"""
        key = ("b", i)
        if key in memo:
            return memo[key]
        memo[key] = frozenset()
        res = set()
        frontier = set(unary(i))
        while frontier:
            res |= frontier
            nxt = set()
            for e in frontier:
                j = e
                if isop(j, "not"):
                    j += 1
                if j < n and kinds[j] == "op" and texts[j] in table.infix:
                    for e2 in unary(j + 1):
                        if e2 not in res:
                            nxt.add(e2)
            frontier = nxt
        memo[key] = frozenset(res)
        return memo[key]

    def expr(i):
        key = ("e", i)
        if key in memo:
            return memo[key]
        memo[key] = frozenset()
        res = set(binary(i))
        for e in binary(i):
            if isop(e, "?"):
                for e2 in expr(e + 1):
                    if isop(e2, ":"):
                        res |= expr(e2 + 1)
        memo[key] = frozenset(res)
        return memo[key]

    def items(i, close, pair, trailing=True):
        """ends after the closing delimiter of `item (, item)* ,? close` or `close` (the trailing comma only in lists and maps)"""
        res = set()
        if isdel(i, close):
            res.add(i + 1)
        starts = {i}
        seen = set()
        while starts:
            s0 = starts.pop()
            if s0 in seen:
                continue
            seen.add(s0)
            if pair:
                ends = set()
                for e in expr(s0):
                    if isop(e, ":"):
                        ends |= expr(e + 1)
            else:
                ends = expr(s0)
            for e in ends:
                if isdel(e, close):
                    res.add(e + 1)
                if e < n and kinds[e] == "comma":
                    if trailing and isdel(e + 1, close):
                        res.add(e + 2)
                    starts.add(e + 1)
        return res

    def atom(i):
        key = ("a", i)
        if key in memo:
            return memo[key]
        memo[key] = frozenset()
        res = set()
        if i < n:
            k = kinds[i]
            if k in ("num", "bool", "str", "ref"):
                res.add(i + 1)
            elif k == "func":
                if isdel(i + 1, "("):
                    res |= items(i + 2, ")", False, trailing=False)
            elif k == "delim":
                if texts[i] == "(":
                    for e in expr(i + 1):
                        if isdel(e, ")"):
                            res.add(e + 1)
                elif texts[i] == "[":
                    res |= items(i + 1, "]", False)
                elif texts[i] == "{":
                    res |= items(i + 1, "}", True)
        memo[key] = frozenset(res)
        return memo[key]

    # program := eps | expr ( ';'? expr )* ';'?
    reach = {0}
    seen = set()
    while reach:
        i = reach.pop()
        if i in seen:
            continue
        seen.add(i)
        if i == n:
            return True
        for e in expr(i):
            if e == n:
                return True
            reach.add(e)
            if kinds[e] == "semi":
                if e + 1 == n:
                    return True
                reach.add(e + 1)
    return n == 0


# ------------------------------------------------------------------------------------------------
# rendering reference trees to program text (minimal parentheses + optional redundant ones)

ATOMS = ("num", "bool", "str", "ref", "fn", "list", "map")


def num_text(m, s):
    m = int(m)
    neg = m < 0
    d = str(abs(m))
    if s > 0:
        d = d.rjust(s + 1, "0")
        d = d[:-s] + "." + d[-s:]
    return ("-" if neg else "") + d


def str_text(payload, rnd=None):
    if '"' in payload:
        return "'" + payload + "'"
    if "'" in payload:
        return '"' + payload + '"'
    qc = rnd.choice("'\"") if rnd else "'"
    return qc + payload + qc


class Renderer:
    """Renders a reference AST to a token list (strings) that re-parses to the same AST under the
    documented rules: parentheses exactly where needed, plus optional redundant ones.
    `infix_not(node)` decides whether ["un","not",["bin",..]] is written `x not OP y` or
    `not (x OP y)`; `wrap` maps id(node) -> number of redundant parenthesis pairs around that node."""

    def __init__(self, table=BUILTINS, rnd=None, extra_parens=0.0, infix_not=None, wrap=None, trailing_comma=0.0):
        self.tab = table
        self.rnd = rnd
        self.extra = extra_parens
        self.infix_not = infix_not
        self.wrap = wrap or {}
        self.trailing = trailing_comma

    def is_infix_not(self, a):
        if a[0] == "un" and a[1] == "not" and a[2][0] == "bin" and a[2][1] not in self.tab.prefix:
            if self.infix_not is not None:
                return self.infix_not(a)
            return bool(self.rnd and self.rnd.random() < 0.5)
        return False

    def binlike(self, a, form):
        if a[0] == "bin":
            return (a[1], a[2], a[3], False)
        if form.get(id(a)):
            return (a[2][1], a[2][2], a[2][3], True)
        return None

    def tokens(self, a):
        form = {}
        self._decide(a, form)
        return self._r(a, form)

    def render(self, a):
        toks = self.tokens(a)
        if self.rnd is not None and self.rnd.random() < 0.3:
            # a random layout: some boundaries glued (where R-TOK reads the same), the others filled with blanks, tabs, CR, LF --
            # also between a function name and its `(`
            r = self.rnd
            ws = lambda: "".join(r.choice(" \t\r\n") for _ in range(r.randint(1, 3)))
            return join_tokens(toks, rnd=r, compact=r.choice([0.0, 0.5, 0.9]), ws=ws if r.random() < 0.6 else None, table=self.tab)
        return join_tokens(toks, wordops=self.tab.word_ops())

    def _decide(self, a, form):
        k = a[0]
        if k == "un":
            if self.is_infix_not(a):
                form[id(a)] = True
            self._decide(a[2], form)
        elif k == "bin":
            self._decide(a[2], form)
            self._decide(a[3], form)
        elif k == "post":
            self._decide(a[1], form)
        elif k == "tern":
            for x in a[1:]:
                self._decide(x, form)
        elif k == "fn":
            for x in a[2]:
                self._decide(x, form)
        elif k in ("list", "stmt"):
            for x in a[1]:
                self._decide(x, form)
        elif k == "map":
            for kk, v in a[1]:
                self._decide(kk, form)
                self._decide(v, form)

    @staticmethod
    def _p(t):
        return ["("] + t + [")"]

    def _sub(self, a, form, need):
        """tokens of sub-expression `a`, parenthesised if needed / asked for / by chance"""
        t = self._r(a, form)
        n = self.wrap.get(id(a), 0)
        if need:
            n += 1
        elif self.rnd and self.extra and a[0] != "stmt" and self.rnd.random() < self.extra:
            n += self.rnd.randint(1, 2)
        for _ in range(n):
            t = self._p(t)
        return t

    def _items(self, items, form, close):
        t = []
        for i, x in enumerate(items):
            if i:
                t.append(",")
            if isinstance(x, tuple):
                t += self._sub(x[0], form, False) + [":"] + self._sub(x[1], form, False)
            else:
                t += self._sub(x, form, False)
        if items and close != ")" and self.rnd and self.trailing and self.rnd.random() < self.trailing:
            t.append(",")
        return t

    def _r(self, a, form):
        k = a[0]
        if k == "num":
            return [num_text(a[1], a[2])]
        if k == "bool":
            if self.rnd:
                return [self.rnd.choice(["true", "True"] if a[1] else ["false", "False"])]
            return ["true" if a[1] else "false"]
        if k == "str":
            return [str_text(a[1], self.rnd)]
        if k == "ref":
            return [a[1]]
        if k == "fn":
            return [FnName(a[1]), "("] + self._items(a[2], form, ")") + [")"]
        if k == "list":
            return ["["] + self._items(a[1], form, "]") + ["]"]
        if k == "map":
            return ["{"] + self._items([(kk, v) for kk, v in a[1]], form, "}") + ["}"]
        if k == "stmt":
            t = []
            for i, x in enumerate(a[1]):
                if i:
                    t.append(";")
                t += self._sub(x, form, False)
            return t
        if k == "tern":
            return self._sub(a[1], form, a[1][0] == "tern") + ["?"] + self._sub(a[2], form, False) + [":"] + self._sub(a[3], form, False)
        if k == "post":
            return self._sub(a[1], form, a[1][0] not in ATOMS) + [a[2]]
        bl = self.binlike(a, form)
        if bl is not None:
            op, l, r, neg = bl
            l_bp, r_bp = self.tab.bp(op)
            lb = self.binlike(l, form)
            lt = self._sub(l, form, l[0] == "tern" or (lb is not None and self.tab.bp(lb[0])[1] < l_bp))
            rb = self.binlike(r, form)
            rt = self._sub(r, form, r[0] == "tern" or (rb is not None and self.tab.bp(rb[0])[0] < r_bp))
            return lt + (["not"] if neg else []) + [op] + rt
        if k == "un":
            return [a[1]] + self._sub(a[2], form, a[2][0] == "tern" or self.binlike(a[2], form) is not None)
        if k == "none":
            return []
        raise ValueError("render: " + repr(a))


class FnName(str):
    """a function-name token (always directly followed by the "(" token)"""


def glue_ok(a, b):
    """True if tokens a and b may be written without whitespace between them and still be read as the
    same two tokens (only delimiters, commas and semicolons glue safely)."""
    if isinstance(a, FnName):
        return True
    if a in ("(", "[", "{") or b in (")", "]", "}", ",", ";"):
        return True
    if a in (",", ";", ")", "]", "}") and b in ("(", "[", "{"):
        return True
    if a in (",", ";") :
        return True
    if b in ("[", "{") and a not in (")", "]", "}"):
        # `x[` would still be two tokens for names, numbers, strings and operators
        return True
    return False


_GLUE_CACHE = {}


def glue_safe(a, b, table=BUILTINS, sig=None):
    """True if writing tokens a and b without whitespace still reads as the same two tokens under R-TOK (operators next to
    operands, numbers next to words, ...); anything R-TOK leaves open counts as unsafe."""
    if glue_ok(a, b):
        return True
    if sig is None:
        sig = hash(frozenset(table.all_ops()))
    key = (str(a), str(b), isinstance(a, FnName), sig)
    r = _GLUE_CACHE.get(key)
    if r is None:
        try:
            glued = rtok(str(a) + str(b), table)
            spaced = rtok(str(a) + " " + str(b), table)
            la = len(str(a).encode("utf-8"))
            r = (len(glued) == 2 and len(spaced) == 2 and glued[0][2] == 0 and glued[0][3] == la and glued[1][2] == la and glued[1][3] == la + len(str(b).encode("utf-8"))
                 and all(g[0] == s_[0] and g[1] == s_[1] for g, s_ in zip(glued, spaced)))
        except (Abstain, LexError):
            r = False
        if len(_GLUE_CACHE) < 200000:
            _GLUE_CACHE[key] = r
    return r


def join_tokens(toks, rnd=None, compact=0.0, ws=None, wordops=(), table=None):
    """Joins tokens with single blanks (or `ws()` strings); with `compact` probability a boundary that R-TOK reads the same
    without whitespace gets none at all (`-2++`, `a+b`, `x=[1]`). Callers that use registered operators pass their table
    (without one, only delimiters / commas glue for them)."""
    out = []
    if table is None and not wordops:
        table = BUILTINS
    sig = hash(frozenset(table.all_ops())) if table is not None else None
    for i, t in enumerate(toks):
        if i:
            a = toks[i - 1]
            if rnd is None:
                tight = glue_ok(a, t) and (isinstance(a, FnName) or t in (")", "]", "}", ",") or a in ("(", "[", "{"))
            elif rnd.random() < compact:
                # (a word operator may stand directly before `,` / `;` since repair 4aaeb6d; `wordops` is kept for callers' sake)
                tight = glue_safe(a, t, table, sig) if table is not None else glue_ok(a, t)
            else:
                tight = False
            if not tight:
                out.append(ws() if ws else " ")
        out.append(t)
    return "".join(out)


# ------------------------------------------------------------------------------------------------
# values


def V_num(x):
    return ("n", Fraction(x))


V_NONE = ("z",)


def value_from_json(j):
    t = j[0]
    if t == "z":
        return V_NONE
    if t == "b":
        return ("b", bool(j[1]))
    if t == "s":
        return ("s", j[1])
    if t == "n":
        return ("n", Fraction(int(j[1]), 10 ** int(j[2])))
    if t == "l":
        return ("l", tuple(value_from_json(x) for x in j[1]))
    if t == "m":
        return ("m", tuple((value_from_json(k), value_from_json(v)) for k, v in j[1]))
    raise ValueError("value tag " + repr(t))


def dec_parts(fr, max_scale=28):
    """(mantissa, scale) with the smallest scale representing Fraction fr exactly within the decimal
    domain (scale <= 28, |mantissa| < 2^96), or None."""
    for s in range(0, max_scale + 1):
        x = fr * (10 ** s)
        if x.denominator == 1:
            if abs(x.numerator) < TWO96:
                return (x.numerator, s)
            return None
    return None


def value_to_json(v):
    t = v[0]
    if t == "z":
        return ["z"]
    if t == "b":
        return ["b", v[1]]
    if t == "s":
        return ["s", v[1]]
    if t == "n":
        p = dec_parts(v[1])
        if p is None:
            raise ValueError("not representable: %r" % (v[1],))
        return ["n", str(p[0]), p[1]]
    if t == "l":
        return ["l", [value_to_json(x) for x in v[1]]]
    if t == "m":
        return ["m", [[value_to_json(k), value_to_json(x)] for k, x in v[1]]]
    raise ValueError(v)


def representable(fr):
    return dec_parts(fr) is not None


# ------------------------------------------------------------------------------------------------
# R-EVAL


class EvalErr(Exception):
    """The evaluation returns Err."""


class PanicFault(Exception):
    """An injected handler panic unwinds out of the evaluation."""


class Approx:
    def __init__(self, value, tol):
        self.value = value
        self.tol = tol


I64_MIN = -(1 << 63)
I64_MAX = (1 << 63) - 1


def as_int(v):
    if v[0] != "n":
        raise EvalErr("bit operand not a number")
    f = v[1]
    if f.denominator != 1 or not (I64_MIN <= f.numerator <= I64_MAX):
        raise EvalErr("bit operand not an i64 integer")
    return f.numerator


def wrap64(x):
    x &= (1 << 64) - 1
    return x - (1 << 64) if x >= (1 << 63) else x


def num_result(fr):
    """Number produced by exact arithmetic: exact when representable, Err on overflow, otherwise
    the statement leaves the rounding open."""
    if abs(fr) >= TWO96:
        raise EvalErr("overflow")
    if representable(fr):
        return ("n", fr)
    raise Abstain("exact result not representable (rounding unspecified)")


class Beh:
    """Model of a harness-supplied handler behaviour (mirrors vexec's run_beh)."""

    def __init__(self, id, log=False, ret="tag", v=None):
        self.id = id
        self.log = log
        self.ret = ret
        self.v = v if v is not None else V_NONE

    def to_json(self):
        j = {"id": self.id, "log": self.log, "ret": self.ret}
        if self.ret == "const":
            j["v"] = value_to_json(self.v)
        return j


class Evaluator:
    def __init__(self, ctx=None, gfuncs=None, table=None, handlers=None, fault=None):
        self.ctx = dict(ctx or {})  # name -> value | ("fn", Beh)
        self.gfuncs = dict(gfuncs or {})  # name -> Beh (overrides / additions to the built-ins)
        self.tab = table or BUILTINS
        self.handlers = handlers or {}  # (kind, op) -> Beh for registered operators
        self.log = []
        self.count = 0
        self.fault = fault  # (k, "err"|"panic") or None
        self.abstained = None

    # -- handlers -------------------------------------------------------------------------------
    def call_beh(self, beh, kind, name, args):
        self.count += 1
        if beh.log:
            self.log.append((beh.id, kind, name, tuple(args)))
        if self.fault and self.fault[0] == self.count:
            if self.fault[1] == "err":
                raise EvalErr("injected")
            raise PanicFault()
        if beh.ret == "const":
            return beh.v
        if beh.ret == "last":
            return args[-1] if args else V_num(beh.id)
        if beh.ret == "arg0":
            return args[0] if args else V_NONE
        if beh.ret == "none":
            return V_NONE
        return ("l", (V_num(beh.id),) + tuple(args))

    # -- evaluation -----------------------------------------------------------------------------
    def run(self, ast):
        return self.ev(ast)

    def ev(self, a):
        k = a[0]
        if k == "num":
            return ("n", Fraction(int(a[1]), 10 ** a[2]))
        if k == "bool":
            return ("b", a[1])
        if k == "str":
            return ("s", a[1])
        if k == "none":
            return V_NONE
        if k == "ref":
            v = self.ctx.get(a[1])
            if v is None:
                return V_NONE
            if v[0] == "fn":
                return self.call_beh(v[1], "cfn", a[1], [])
            return v
        if k == "fn":
            args = [self.ev(x) for x in a[2]]
            v = self.ctx.get(a[1])
            if v is not None and v[0] == "fn":
                return self.call_beh(v[1], "cfn", a[1], args)
            if a[1] in self.gfuncs:
                return self.call_beh(self.gfuncs[a[1]], "gfn", a[1], args)
            if a[1] in BUILTIN_FUNCS:
                return self.builtin_fn(a[1], args)
            raise EvalErr("function not registered")
        if k == "un":
            x = self.ev(a[2])
            h = self.handlers.get(("prefix", a[1]))
            if h is not None:
                return self.call_beh(h, "prefix", a[1], [x])
            return self.prefix(a[1], x)
        if k == "post":
            x = self.ev(a[1])
            h = self.handlers.get(("postfix", a[2]))
            if h is not None:
                return self.call_beh(h, "postfix", a[2], [x])
            return self.postfix(a[2], x)
        if k == "bin":
            op = a[1]
            if op not in self.tab.infix:
                raise EvalErr("infix not registered")
            ty = self.tab.infix[op][2]
            l = self.ev(a[2])
            r = self.ev(a[3])
            h = self.handlers.get(("infix", op))
            if ty == "SETTER":
                if a[2][0] != "ref":
                    raise EvalErr("assignment target is not a name")
                if h is not None:
                    v = self.call_beh(h, "setter", op, [l, r])
                else:
                    v = self.setter(op, l, r)
                self.ctx[a[2][1]] = v
                return V_NONE
            if h is not None:
                return self.call_beh(h, "infix", op, [l, r])
            return self.infix(op, l, r)
        if k == "tern":
            c = self.ev(a[1])
            if c[0] != "b":
                raise EvalErr("condition not bool")
            return self.ev(a[2] if c[1] else a[3])
        if k == "list":
            return ("l", tuple(self.ev(x) for x in a[1]))
        if k == "map":
            out = []
            for kk, v in a[1]:
                kv = self.ev(kk)
                vv = self.ev(v)
                out.append((kv, vv))
            return ("m", tuple(out))
        if k == "stmt":
            ans = V_NONE
            for x in a[1]:
                ans = self.ev(x)
            return ans
        raise ValueError("eval: " + repr(a))

    # -- built-in semantics ---------------------------------------------------------------------
    @staticmethod
    def need(v, tag):
        if v[0] != tag:
            raise EvalErr("type mismatch")
        return v[1]

    def arith(self, op, a, b):
        if op == "+":
            return num_result(a + b)
        if op == "-":
            return num_result(a - b)
        if op == "*":
            return num_result(a * b)
        if op == "/":
            if b == 0:
                raise EvalErr("division by zero")
            q = a / b
            if abs(q) >= TWO96:
                raise EvalErr("overflow")
            if representable(q):
                return ("n", q)
            raise Abstain("inexact quotient")
        if op == "%":
            if b == 0:
                raise EvalErr("remainder by zero")
            # truncated remainder, sign of the dividend
            qt = abs(a) // abs(b)
            r = abs(a) - qt * abs(b)
            if a < 0:
                r = -r
            return num_result(r)
        raise ValueError(op)

    def bitop(self, op, l, r):
        a, b = as_int(l), as_int(r)
        if op == "|":
            return V_num(a | b)
        if op == "^":
            return V_num(a ^ b)
        if op == "&":
            return V_num(a & b)
        if not (0 <= b <= 63):
            raise EvalErr("shift count out of range")
        if op == "<<":
            return V_num(wrap64(a << b))
        return V_num(a >> b)

    def infix(self, op, l, r):
        if op in ("+", "-", "*", "/", "%"):
            return self.arith(op, self.need(l, "n"), self.need(r, "n"))
        if op in ("<", "<=", ">", ">="):
            a, b = self.need(l, "n"), self.need(r, "n")
            return ("b", {"<": a < b, "<=": a <= b, ">": a > b, ">=": a >= b}[op])
        if op == "==":
            return ("b", l == r)
        if op == "!=":
            return ("b", l != r)
        if op in ("&&", "||"):
            a, b = self.need(l, "b"), self.need(r, "b")
            return ("b", (a and b) if op == "&&" else (a or b))
        if op in ("|", "^", "&", "<<", ">>"):
            return self.bitop(op, l, r)
        if op == "beginWith":
            return ("b", self.need(l, "s").startswith(self.need(r, "s")))
        if op == "endWith":
            return ("b", self.need(l, "s").endswith(self.need(r, "s")))
        if op == "in":
            return ("b", l in self.need(r, "l"))
        raise EvalErr("no handler for " + op)

    def setter(self, op, old, new):
        if op == "=":
            return new
        base = op[:-1]
        if base in ("+", "-", "*", "/", "%"):
            return self.arith(base, self.need(old, "n"), self.need(new, "n"))
        return self.bitop(base, old, new)

    def prefix(self, op, x):
        if op == "-":
            return ("n", -self.need(x, "n"))
        if op == "+":
            return ("n", self.need(x, "n"))
        if op in ("!", "not"):
            return ("b", not self.need(x, "b"))
        if op in ("AND", "OR"):
            items = self.need(x, "l")
            if not items:
                # identity elements, like the empty sum and product: AND of nothing is true, OR of nothing is false
                return ("b", op == "AND")
            decided = None
            for it in items:
                if it[0] != "b":
                    if decided is not None:
                        raise Abstain("non-boolean after the deciding element")
                    raise EvalErr("element not bool")
                if decided is None:
                    if op == "AND" and not it[1]:
                        decided = False
                    if op == "OR" and it[1]:
                        decided = True
            if decided is not None:
                return ("b", decided)
            return ("b", op == "AND")
        raise EvalErr("prefix operator not registered")

    def postfix(self, op, x):
        v = self.need(x, "n")
        if op == "++":
            return num_result(v + 1)
        if op == "--":
            return num_result(v - 1)
        raise EvalErr("postfix operator not registered")

    def builtin_fn(self, name, args):
        nums = [self.need(a, "n") for a in args]
        if name in ("min", "max"):
            if not nums:
                raise EvalErr("no arguments")
            return ("n", min(nums) if name == "min" else max(nums))
        # the empty sum is 0 and the empty product is 1 (identity elements; min / max of nothing have none and fail)
        acc = Fraction(0) if name == "sum" else Fraction(1)
        for x in nums:
            acc = (acc + x) if name == "sum" else (acc * x)
            # every partial result must stay in the domain
            if abs(acc) >= TWO96:
                raise EvalErr("overflow")
            if not representable(acc):
                raise Abstain("partial result not representable")
        return ("n", acc)


def evaluate(ast, ctx=None, **kw):
    """-> (outcome, evaluator). outcome = ("ok", value) | ("err",) | ("panic",) | ("abstain", why)"""
    ev = Evaluator(ctx, **kw)
    try:
        v = ev.run(ast)
        return ("ok", v), ev
    except EvalErr:
        return ("err",), ev
    except PanicFault:
        return ("panic",), ev
    except Abstain as e:
        return ("abstain", str(e)), ev


def outcome_from_record(res):
    """Normalises vexec's {"ok":..}|{"err":..}|{"panic":..} into the same outcome tuples."""
    if "ok" in res:
        return ("ok", value_from_json(res["ok"]))
    if "err" in res:
        return ("err",)
    if "panic" in res:
        return ("panic", res["panic"], res.get("loc", ""))
    return ("unknown",)


# ------------------------------------------------------------------------------------------------
# R-DESC


def _describe_with_empty(a, reg):
    """same as describe() but a key registered with id 0 renders as \"\" """
    zero = {k for k, v in reg.items() if v == 0}
    k = a[0]
    key = {"un": ("UNARY", a[1]) if k == "un" else None, "bin": ("BINARY", a[1]) if k == "bin" else None, "post": ("POSTFIX", a[2]) if k == "post" else None, "tern": ("TERNARY",), "fn": ("FUNCTION", a[1]) if k == "fn" else None,
           "ref": ("REFERENCE", a[1]) if k == "ref" else None, "list": ("LIST",), "map": ("MAP",), "stmt": ("CHAIN",)}.get(k)
    if key in zero:
        return ""
    reg2 = {kk: v for kk, v in reg.items() if v != 0}
    d = lambda x: _describe_with_empty(x, reg)
    if k == "un":
        i = reg2.get(("UNARY", a[1])); r = d(a[2])
        return "<U%d|%s|%s>" % (i, a[1], r) if i is not None else a[1] + r
    if k == "bin":
        i = reg2.get(("BINARY", a[1])); l, r = d(a[2]), d(a[3])
        return "<B%d|%s|%s|%s>" % (i, a[1], l, r) if i is not None else l + a[1] + r
    if k == "post":
        i = reg2.get(("POSTFIX", a[2])); l = d(a[1])
        return "<P%d|%s|%s>" % (i, l, a[2]) if i is not None else l + a[2]
    if k == "tern":
        i = reg2.get(("TERNARY",)); c, l, r = d(a[1]), d(a[2]), d(a[3])
        return "<T%d|%s|%s|%s>" % (i, c, l, r) if i is not None else c + "?" + l + ":" + r
    if k == "fn":
        i = reg2.get(("FUNCTION", a[1])); args = [d(x) for x in a[2]]
        return "<F%d|%s|%s>" % (i, a[1], "#".join(args)) if i is not None else a[1] + "(" + ",".join(args) + ")"
    if k == "ref":
        i = reg2.get(("REFERENCE", a[1]))
        return "<R%d|%s>" % (i, a[1]) if i is not None else a[1]
    if k == "list":
        i = reg2.get(("LIST",)); items = [d(x) for x in a[1]]
        return "<L%d|%s>" % (i, "#".join(items)) if i is not None else "[" + ",".join(items) + "]"
    if k == "map":
        i = reg2.get(("MAP",)); items = [(d(kk), d(v)) for kk, v in a[1]]
        return "<M%d|%s>" % (i, "#".join(kk + "~" + v for kk, v in items)) if i is not None else "{" + ",".join(kk + ":" + v for kk, v in items) + "}"
    if k == "stmt":
        i = reg2.get(("CHAIN",)); items = [d(x) for x in a[1]]
        return "<C%d|%s>" % (i, "#".join(items)) if i is not None else ";".join(items)
    return describe(a, {})


def describe(a, reg):
    """describe() of a reference AST. `reg` maps ("UNARY", op) / ("BINARY", op) / ("POSTFIX", op) /
    ("TERNARY",) / ("FUNCTION", name) / ("REFERENCE", name) / ("LIST",) / ("MAP",) / ("CHAIN",) to the
    marker id registered last; missing keys use the documented defaults."""
    k = a[0]
    if k == "num":
        return num_text(a[1], a[2])
    if k == "bool":
        return "true" if a[1] else "false"
    if k == "str":
        # literals render as in expr(); which of the two quotes is used is expr()'s business (C12): callers compare modulo the quote character
        return '"' + a[1] + '"'
    if k == "none":
        return ""
    d = lambda x: describe(x, reg)
    # marker id 0 stands for a descriptor that renders its node as the empty string
    if any(v == 0 for v in reg.values()):
        return _describe_with_empty(a, reg)
    if k == "un":
        i = reg.get(("UNARY", a[1]))
        r = d(a[2])
        return "<U%d|%s|%s>" % (i, a[1], r) if i is not None else a[1] + r
    if k == "bin":
        i = reg.get(("BINARY", a[1]))
        l, r = d(a[2]), d(a[3])
        return "<B%d|%s|%s|%s>" % (i, a[1], l, r) if i is not None else l + a[1] + r
    if k == "post":
        i = reg.get(("POSTFIX", a[2]))
        l = d(a[1])
        return "<P%d|%s|%s>" % (i, l, a[2]) if i is not None else l + a[2]
    if k == "tern":
        i = reg.get(("TERNARY",))
        c, l, r = d(a[1]), d(a[2]), d(a[3])
        return "<T%d|%s|%s|%s>" % (i, c, l, r) if i is not None else c + "?" + l + ":" + r
    if k == "fn":
        i = reg.get(("FUNCTION", a[1]))
        args = [d(x) for x in a[2]]
        return "<F%d|%s|%s>" % (i, a[1], "#".join(args)) if i is not None else a[1] + "(" + ",".join(args) + ")"
    if k == "ref":
        i = reg.get(("REFERENCE", a[1]))
        return "<R%d|%s>" % (i, a[1]) if i is not None else a[1]
    if k == "list":
        i = reg.get(("LIST",))
        items = [d(x) for x in a[1]]
        return "<L%d|%s>" % (i, "#".join(items)) if i is not None else "[" + ",".join(items) + "]"
    if k == "map":
        i = reg.get(("MAP",))
        items = [(d(kk), d(v)) for kk, v in a[1]]
        if i is not None:
            return "<M%d|%s>" % (i, "#".join(kk + "~" + v for kk, v in items))
        return "{" + ",".join(kk + ":" + v for kk, v in items) + "}"
    if k == "stmt":
        i = reg.get(("CHAIN",))
        items = [d(x) for x in a[1]]
        return "<C%d|%s>" % (i, "#".join(items)) if i is not None else ";".join(items)
    raise ValueError(a)
